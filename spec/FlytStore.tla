------------------------------ MODULE FlytStore ------------------------------
(***************************************************************************)
(* Operational specification of flyt.SharedStore (flyt.go:55-425) as a     *)
(* sequential object: a map from keys to values (a stored nil is present), *)
(* plus the snapshots handed out by GetAll and Keys, each with its OWN     *)
(* contents, so that aliasing between a snapshot and the store would be a  *)
(* visible state difference.                                               *)
(*                                                                         *)
(* The sequential semantics of every operation is Apply (module StoreSem); *)
(* this module adds the actions over (store, snaps) for bounded model      *)
(* checking: every operation sequence, with snapshot mutation steps.       *)
(***************************************************************************)
EXTENDS StoreSem

(* ---------------------------------------------------------------------- *)
(* bounded model: every operation sequence over a small key/value space    *)
(* ---------------------------------------------------------------------- *)
CONSTANTS KeySet, ValSet, MaxOps

VARIABLES store, snaps, h
svars == <<store, snaps, h>>

Op(op, k, v, m, d) == [op |-> op, k |-> k, v |-> v, m |-> m, d |-> d]
\* Merge arguments: all maps over at most two keys
MergeArgs == {<<>>} \cup {<< <<k, v>> >> : k \in KeySet, v \in ValSet}
                     \cup {m \in {<< <<k1, v1>>, <<k2, v2>> >> : k1 \in KeySet, k2 \in KeySet, v1 \in ValSet, v2 \in ValSet} : m[1][1] < m[2][1]}
Ops == {Op("set", k, v, <<>>, 0) : k \in KeySet, v \in ValSet}
       \cup {Op(o, k, 0, <<>>, 0) : o \in {"get", "has", "delete"}, k \in KeySet}
       \cup {Op(o, 0, 0, <<>>, 0) : o \in {"len", "keys", "getall", "clear", "mergenil"}}
       \cup {Op("merge", 0, 0, m, 0) : m \in MergeArgs}
       \cup {Op("getint", k, 0, <<>>, d) : k \in KeySet, d \in {0, 9}}

SInit == store = EmptyStore /\ snaps = <<>> /\ h = <<>>

\* a store operation; GetAll and Keys hand out a snapshot that is remembered with its own contents
Do(o) ==
  /\ Len(h) < MaxOps
  /\ LET r == Apply(store, o) IN
       /\ store' = r.st
       /\ h' = Append(h, [ev |-> "op", op |-> o.op, k |-> o.k, v |-> o.v, m |-> o.m, d |-> o.d, res |-> r.res,
                          snap |-> IF o.op \in {"getall", "keys"} THEN Len(snaps) + 1 ELSE 0])
       /\ snaps' = IF o.op = "getall" THEN Append(snaps, [kind |-> "map", st |-> store, keys |-> <<>>])
                   ELSE IF o.op = "keys" THEN Append(snaps, [kind |-> "keys", st |-> EmptyStore, keys |-> r.res.keys])
                   ELSE snaps

\* the client writes into a map it got from GetAll: only that snapshot changes
MutateSnapshot(s, k, v) ==
  /\ Len(h) < MaxOps /\ s \in 1..Len(snaps) /\ snaps[s].kind = "map"
  /\ snaps' = [snaps EXCEPT ![s].st = Put(@, k, v)]
  /\ h' = Append(h, [ev |-> "mutsnap", snap |-> s, k |-> k, v |-> v])
  /\ UNCHANGED store
\* the client overwrites the first element of a slice it got from Keys
MutateKeys(s, k) ==
  /\ Len(h) < MaxOps /\ s \in 1..Len(snaps) /\ snaps[s].kind = "keys" /\ snaps[s].keys # <<>>
  /\ snaps' = [snaps EXCEPT ![s].keys = [@ EXCEPT ![1] = k]]
  /\ h' = Append(h, [ev |-> "mutkeys", snap |-> s, k |-> k])
  /\ UNCHANGED store
\* the client reads a snapshot back: it shows its own contents, whatever happened to the store since
ReadSnapshot(s) ==
  /\ Len(h) < MaxOps /\ s \in 1..Len(snaps)
  /\ h' = Append(h, [ev |-> "readsnap", snap |-> s, pairs |-> Pairs(snaps[s].st), keys |-> snaps[s].keys])
  /\ UNCHANGED <<store, snaps>>
\* the client merges a snapshot map into the store (the store must copy, not alias)
MergeSnapshot(s) ==
  /\ Len(h) < MaxOps /\ s \in 1..Len(snaps) /\ snaps[s].kind = "map"
  /\ store' = PutAll(store, Pairs(snaps[s].st))
  /\ h' = Append(h, [ev |-> "mergesnap", snap |-> s])
  /\ UNCHANGED snaps

SNext == \/ \E o \in Ops : Do(o)
         \/ \E s \in 1..Len(snaps) : \E k \in KeySet : \E v \in ValSet : MutateSnapshot(s, k, v)
         \/ \E s \in 1..Len(snaps) : \E k \in KeySet : MutateKeys(s, k)
         \/ \E s \in 1..Len(snaps) : ReadSnapshot(s) \/ MergeSnapshot(s)

SSpec == SInit /\ [][SNext]_svars

\* mutual consistency of the answers (C14): Has, Len, Keys, GetAll agree with each other in every state
Consistent ==
  LET has(k) == Apply(store, Op("has", k, 0, <<>>, 0)).res.ok
      get(k) == Apply(store, Op("get", k, 0, <<>>, 0)).res
      len    == Apply(store, Op("len", 0, 0, <<>>, 0)).res.n
      keys   == Apply(store, Op("keys", 0, 0, <<>>, 0)).res.keys
      all    == Apply(store, Op("getall", 0, 0, <<>>, 0)).res.pairs
  IN /\ \A k \in KeySet : has(k) = get(k).ok
     /\ len = Len(keys) /\ len = Len(all)
     /\ \A i \in 1..Len(all) : all[i][1] = keys[i] /\ get(keys[i]).ok /\ get(keys[i]).v = all[i][2]
=============================================================================
