------------------------------ MODULE MCPool ------------------------------
EXTENDS FlytPool, Json
CONSTANTS Family, MaxW, MaxS, MaxPer, MaxRounds, DoExport
P == INSTANCE PropsPool

FullCfgs  == {[W |-> w, S |-> s, per |-> p, rounds |-> r, gated |-> FALSE] :
                w \in 0..MaxW, s \in 1..MaxS, p \in 1..MaxPer, r \in 1..MaxRounds}
GatedCfgs == {[W |-> w, S |-> s, per |-> p, rounds |-> r, gated |-> TRUE] :
                w \in 0..MaxW, s \in 1..MaxS, p \in 1..MaxPer, r \in 1..MaxRounds}
EarlyCfgs == {[W |-> w, S |-> s, per |-> p, rounds |-> r, gated |-> FALSE, early |-> TRUE] :
                w \in 0..MaxW, s \in 1..MaxS, p \in 1..MaxPer, r \in 1..MaxRounds}
SelfWaitCfgs == {[W |-> w, S |-> s, per |-> p, rounds |-> r, gated |-> FALSE, selfwait |-> TRUE] :
                w \in 0..MaxW, s \in 2..MaxS, p \in 1..MaxPer, r \in 1..MaxRounds}
Cfgs == CASE Family = "full" -> FullCfgs [] Family = "gated" -> GatedCfgs [] Family = "early" -> EarlyCfgs [] Family = "selfwait" -> SelfWaitCfgs

MCInit == \E c \in Cfgs : InitWith(c)
MCSpec == MCInit /\ [][Next]_vars
MCLive == MCInit /\ [][Next]_vars /\ WF_vars(Next)
\* after Close every worker goroutine terminates; every run completes
CloseTerminates == (closed ~> \A w \in Workers : wk[w].st = "exited")
Completes == <>(main.pc = "done")

\* the full-interleaving family checks the state invariants only: the history is left out of the
\* fingerprint (it multiplies states without adding behaviour)
NoHistView == <<cfg, sub, queue, wg, wk, closed, main, runs, fin>>

Terminal == main.pc = "done"
D == P!Digest(cfg, h)
InvC12 == Terminal => P!All(P!C12_Clauses(cfg, D))
InvC08 == Terminal => P!All(P!C08P_Clauses(cfg, D))
NoDeadlock == Terminal \/ ENABLED Next
Export == (DoExport /\ Terminal) => PrintT("SCN " \o ToJson([cfg |-> cfg, h |-> h]))
=============================================================================
