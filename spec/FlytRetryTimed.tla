--------------------------- MODULE FlytRetryTimed ---------------------------
(***************************************************************************)
(* Timed model of the retry loop of flyt.Run (flyt.go:719-738) and of      *)
(* runExecWithRetries (batch.go:317-334): an integer clock `now`; the wait *)
(* between attempts is `select { time.After(w) | ctx.Done() }`.            *)
(*                                                                         *)
(* Time may pass (Tick) anywhere - a goroutine can always be descheduled - *)
(* except that it cannot pass while the run could return because of a      *)
(* cancellation it is waiting on (urgency of WaitCancelled): "ends the run *)
(* promptly, without sleeping out the remainder".                          *)
(***************************************************************************)
EXTENDS Integers, Sequences, FiniteSets, TLC

CONSTANTS N,        \* retry budget (>= 1)
          W,        \* wait in ticks (>= 0)
          MaxTime   \* bound on the clock

VARIABLES pc,       \* "prep" | "loop" | "wait" | "exec" | "after" | "done"
          att,      \* attempts made
          now,      \* the clock
          ws,       \* when the current wait began
          ctx,      \* "live" | "done"
          tcancel,  \* when the context was cancelled (-1: not)
          starts,   \* starts[k], ends[k]: clock at entry / exit of attempt k
          ends,
          cw,       \* the cancellation arrived while the run was waiting between attempts
          tret,     \* when the run returned (-1: not yet)
          ok        \* the attempt in progress will succeed

tvars == <<pc, att, now, ws, ctx, tcancel, cw, starts, ends, tret, ok>>

TInit == /\ pc = "loop" /\ att = 0 /\ now = 0 /\ ws = 0 /\ ctx = "live" /\ tcancel = -1
         /\ starts = <<>> /\ ends = <<>> /\ tret = -1 /\ ok = FALSE /\ cw = FALSE

\* the run is blocked in the wait's select and the context is done: it must return now
Urgent == pc = "wait" /\ ctx = "done"
Tick == /\ now < MaxTime /\ ~Urgent /\ pc # "done"
        /\ now' = now + 1
        /\ UNCHANGED <<pc, att, ws, ctx, tcancel, cw, starts, ends, tret, ok>>

Cancel == /\ ctx = "live" /\ pc # "done"
          /\ ctx' = "done" /\ tcancel' = now /\ cw' = (pc = "wait")
          /\ UNCHANGED <<pc, att, now, ws, starts, ends, tret, ok>>

Return == /\ pc' = "done" /\ tret' = now

\* loop head: budget, context, then wait only between attempts (attempt > 0 && wait > 0)
LoopTop ==
  /\ pc = "loop"
  /\ IF att >= N THEN Return /\ UNCHANGED <<ws>>
     ELSE IF ctx = "done" THEN Return /\ UNCHANGED <<ws>>
     ELSE IF att > 0 /\ W > 0 THEN pc' = "wait" /\ ws' = now /\ UNCHANGED tret
     ELSE pc' = "exec" /\ UNCHANGED <<ws, tret>>
  /\ UNCHANGED <<att, now, ctx, tcancel, cw, starts, ends, ok>>

WaitElapsed ==
  /\ pc = "wait" /\ now - ws >= W
  /\ pc' = "exec"
  /\ UNCHANGED <<att, now, ws, ctx, tcancel, cw, starts, ends, tret, ok>>
WaitCancelled ==
  /\ pc = "wait" /\ ctx = "done"
  /\ Return
  /\ UNCHANGED <<att, now, ws, ctx, tcancel, cw, starts, ends, ok>>

ExecStart(o) ==
  /\ pc = "exec"
  /\ starts' = Append(starts, now) /\ ok' = o /\ pc' = "inexec"
  /\ UNCHANGED <<att, now, ws, ctx, tcancel, cw, ends, tret>>
ExecEnd ==
  /\ pc = "inexec"
  /\ ends' = Append(ends, now) /\ att' = att + 1
  /\ IF ok THEN Return ELSE pc' = "loop" /\ UNCHANGED tret
  /\ UNCHANGED <<now, ws, ctx, tcancel, cw, starts, ok>>

TNext == Tick \/ Cancel \/ LoopTop \/ WaitElapsed \/ WaitCancelled \/ (\E o \in BOOLEAN : ExecStart(o)) \/ ExecEnd
TSpec == TInit /\ [][TNext]_tvars

\* at least W elapses between the end of a failed attempt and the start of the next one
WaitHonoured == \A k \in 2..Len(starts) : starts[k] - ends[k-1] >= W
\* the run only ever waits between attempts
WaitOnlyBetween == pc = "wait" => (att > 0 /\ att < N)
\* a cancellation arriving during the wait ends the run without sleeping out the remainder
PromptReturn == (cw /\ tcancel - ws < W /\ tret >= 0) => tret = tcancel
\* ... and a cancelled wait is never followed by another attempt
\* (if the timer has fired as well, the select may take either branch - that race is real)
NoAttemptAfterCancelledWait == (cw /\ tcancel - ws < W) => \A k \in 1..Len(starts) : starts[k] <= tcancel
AttemptBound == att <= N /\ Len(starts) <= N
=============================================================================
