------------------------------ MODULE MCStore ------------------------------
EXTENDS FlytStore, Json
CONSTANT DoExport
P == INSTANCE PropsStore
\* every history the model can produce satisfies the replay predicate (it is its own reference) ...
InvC14 == P!C14_OK([x |-> 0], h)
\* ... and the answers are mutually consistent in every state
Full == Len(h) = MaxOps
Export == (DoExport /\ Full) => PrintT("SCN " \o ToJson([cfg |-> [maxops |-> MaxOps], h |-> h]))
=============================================================================
