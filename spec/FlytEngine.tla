----------------------------- MODULE FlytEngine -----------------------------
(***************************************************************************)
(* Operational specification of flyt's engine: flyt.Run (flyt.go:681-761), *)
(* Flow.Connect / Flow.Exec / Flow.Post (flyt.go:830-915) and the function  *)
(* node adapters (CustomNode, flyt.go:1118-1164).                          *)
(*                                                                         *)
(* Shaped like the implementation: one action per user callback, per      *)
(* context check, per retry-loop iteration, per flow-loop iteration.  A    *)
(* stack of frames models Go's call stack (Run -> Flow.Exec -> Run ...).   *)
(*                                                                         *)
(* The scenario configuration is the *variable* cfg, fixed by Init, so a   *)
(* single TLC run covers a whole set of configurations (model checking)    *)
(* or a whole file of recorded scenarios (trace validation).               *)
(*                                                                         *)
(* h is the history of observable events - exactly the records the Go      *)
(* harness logs from the real library (same field names, same values).     *)
(***************************************************************************)
EXTENDS Integers, Sequences, FiniteSets, TLC

VARIABLES
  cfg,    \* scenario configuration (never changes after Init / Reset)
  tbl,    \* tbl[f] : partial function <<from, action>> -> node (0 = nil) of flow f
  stack,  \* sequence of frames; Head is the innermost call
  ctx,    \* "live" | "done"
  ret,    \* return register between frames: NoRet or [act, err]
  h,      \* history of observable events of this scenario
  ph,     \* "setup" | "running" | "done"
  tok,    \* fresh token counter; incremented once per user callback
  ci,     \* number of Connect operations of the current setup phase already applied
  run     \* number of the current / next run of the scenario (1-based)

vars == <<cfg, tbl, stack, ctx, ret, h, ph, tok, ci, run>>

NIL        == 0        \* nil node, nil value, empty action ""
DefaultAct == 1        \* flyt.DefaultAction

(* error values: which user error tokens the value matches under           *)
(* errors.Is/As, whether it matches the context's error, or neither        *)
NoErr      == [is |-> FALSE, toks |-> {},  ctx |-> FALSE]
TokErr(t)  == [is |-> TRUE,  toks |-> {t}, ctx |-> FALSE]
CtxErr     == [is |-> TRUE,  toks |-> {},  ctx |-> TRUE]
OtherErr   == [is |-> TRUE,  toks |-> {},  ctx |-> FALSE]

(* values travelling between phases: a token and how it travels            *)
(*   "raw"  - a plain Go value (token 0 = nil)                             *)
(*   "eres" - a flyt.Result in error state travelling as `any`             *)
Raw(t)   == [t |-> t, k |-> "raw"]
ERes(t)  == [t |-> t, k |-> "eres"]
NilVal   == Raw(0)

NoRet    == [some |-> FALSE, act |-> 0, err |-> NoErr]
RetOk(a) == [some |-> TRUE,  act |-> a, err |-> NoErr]
RetErr(e)== [some |-> TRUE,  act |-> 0, err |-> e]

Nodes    == 1..Len(cfg.nodes)
Node(n)  == cfg.nodes[n]
IsLeaf(n)== Node(n).kind = "leaf"
IsFlow(n)== Node(n).kind = "flow"
\* a batch node (one item, sequential) used as a step of a flow: Run hands it to runBatch
\* (flyt.go:683-688), which does not look at the context before prep and always runs post
IsBLeaf(n) == Node(n).kind = "bleaf"
HasCallbacks(n) == IsLeaf(n) \/ IsBLeaf(n)

(* The retry budget Run reads once after prep: GetMaxRetries if the node   *)
(* exposes it, else 1 (flyt.go:707-713).  A Flow embeds a fresh BaseNode.  *)
Budget(n) == IF Node(n).retry THEN Node(n).N ELSE 1
HasFb(n)  == Node(n).fb       \* node implements FallbackNode with a user callback
\* struct nodes embedding *BaseNode and flows inherit BaseNode.ExecFallback,
\* which returns (nil, err): observably the same as "no fallback".

Top       == Head(stack)
Pop       == Tail(stack)
SetTop(f) == <<f>> \o Tail(stack)

RunFrame(n) == [t |-> "run", n |-> n, pc |-> IF Node(n).kind = "bleaf" THEN "prep" ELSE "ctx0", att |-> 0, N |-> 0,
                pv |-> NilVal, xv |-> NilVal, xe |-> NoErr]
FlowFrame(f) == [t |-> "flow", n |-> f, cur |-> Node(f).start, last |-> NIL, st |-> "top"]

(* ---------------------------------------------------------------------- *)
(* events                                                                 *)
(* ---------------------------------------------------------------------- *)
SetToSortedSeq(S) ==
  LET RECURSIVE F(_)
      F(T) == IF T = {} THEN <<>>
              ELSE LET m == CHOOSE x \in T : \A y \in T : x <= y
                   IN <<m>> \o F(T \ {m})
  IN F(S)

ValTok(o, t) == IF o.nilv THEN 0 ELSE t   \* a callback may return nil (token 0)

EvConnect(f, from, a, to) == [ev |-> "connect", flow |-> f, from |-> from, act |-> a, to |-> to]
EvRunCall(n)  == [ev |-> "runcall", node |-> n, ctxdone |-> (ctx = "done")]
EvRunRet(r)   == [ev |-> "runret", act |-> r.act, iserr |-> r.err.is,
                  errs |-> SetToSortedSeq(r.err.toks), ctxerr |-> r.err.ctx]
\* the store carries data from node to node: every post writes its fresh token under one key, every prep reads it
LastWrote == LET ps == SelectSeq(h, LAMBDA e : e.ev = "post") IN IF ps = <<>> THEN 0 ELSE ps[Len(ps)].wrote
EvPrep(n, o, t) == [ev |-> "prep", node |-> n, sok |-> TRUE, cok |-> TRUE, seen |-> LastWrote, out |-> o.out,
                    val |-> IF o.out = "ok" THEN ValTok(o, t) ELSE 0,
                    err |-> IF o.out = "err" THEN t ELSE 0, cancel |-> o.cancel]
EvExec(n, k, arg, o, t) == [ev |-> "exec", node |-> n, k |-> k, arg |-> arg.t,
                    aw |-> "raw", aid |-> TRUE, cok |-> TRUE, out |-> o.out,
                    val |-> IF o.out = "ok" THEN ValTok(o, t) ELSE 0,
                    err |-> IF o.out \in {"err", "eres"} THEN t ELSE 0, cancel |-> o.cancel]
EvFb(n, arg, e, o, t) == [ev |-> "fb", node |-> n, arg |-> arg.t, aid |-> TRUE,
                    errseen |-> SetToSortedSeq(e.toks), out |-> o.out,
                    val |-> IF o.out = "ok" THEN ValTok(o, t) ELSE 0,
                    err |-> IF o.out = "err" THEN t ELSE 0, cancel |-> o.cancel]
\* what a post callback of style sty observes of the exec result xv
PostSees(n, xv) ==
  IF xv.k = "raw" THEN [exec |-> xv.t, eerr |-> FALSE, eerrtok |-> 0]
  ELSE IF (Node(n).func /\ Node(n).sty[3] = "r") \/ Node(n).kind = "bleaf"
       THEN [exec |-> 0, eerr |-> TRUE, eerrtok |-> xv.t]  \* Result style (and batch slots): IsError, Value() = nil
       ELSE [exec |-> 0, eerr |-> FALSE, eerrtok |-> 0]    \* Any style: Value() of an error result is nil
EvPost(n, pv, xv, o, t) ==
  LET s == PostSees(n, xv) IN
  [ev |-> "post", node |-> n, sok |-> TRUE, cok |-> TRUE, wrote |-> t, prep |-> pv.t, pid |-> TRUE,
   exec |-> s.exec, eid |-> TRUE, ew |-> "raw", eerr |-> s.eerr, eerrtok |-> s.eerrtok,
   out |-> o.out, act |-> IF o.out = "ok" THEN o.act ELSE 0,
   err |-> IF o.out = "err" THEN t ELSE 0, cancel |-> o.cancel]

(* ---------------------------------------------------------------------- *)
(* outcome alphabets of the user callbacks (scenario-dependent)            *)
(* ---------------------------------------------------------------------- *)
Cancels == IF cfg.cancel THEN BOOLEAN ELSE {FALSE}
PrepOuts(n) == [out : {"ok", "err"} \cap cfg.outs, nilv : (IF "nil" \in cfg.outs THEN BOOLEAN ELSE {FALSE}), cancel : Cancels]
ExecOuts(n) == [out : ({"ok", "err"} \cup (IF Node(n).func /\ Node(n).sty[2] = "r" THEN {"eres"} ELSE {})) \cap cfg.outs,
                nilv : (IF "nil" \in cfg.outs THEN BOOLEAN ELSE {FALSE}), cancel : Cancels]
FbOuts(n)   == [out : {"ok", "err"}, nilv : (IF "nil" \in cfg.outs THEN BOOLEAN ELSE {FALSE}), cancel : Cancels]
PostOuts(n) == [out : {"ok"}, act : cfg.acts, cancel : Cancels] \cup
               (IF "err" \in cfg.outs THEN [out : {"err"}, act : {0}, cancel : Cancels] ELSE {})

\* a nil value can only be produced by a successful callback
WellFormedOut(o) == o.nilv => o.out = "ok"

(* ---------------------------------------------------------------------- *)
(* Init and the setup phase: Flow.Connect (flyt.go:830-836)               *)
(* ---------------------------------------------------------------------- *)
EmptyTbl == [n \in 1..Len(cfg.nodes) |-> <<>>]

InitWith(c) ==
  /\ cfg = c
  /\ tbl = [n \in 1..Len(c.nodes) |-> <<>>]
  /\ stack = <<>>
  /\ ctx = "live"
  /\ ret = NoRet
  /\ h = <<>>
  /\ ph = "setup"
  /\ tok = 1
  /\ ci = 0
  /\ run = 1

\* tbl[f] is represented as a function whose domain is a set of pairs
Upd(t, k, v) == [x \in (DOMAIN t) \cup {k} |-> IF x = k THEN v ELSE t[x]]

Dyn == "dyn" \in DOMAIN cfg /\ cfg.dyn      \* dynamic wiring scenario (see ConnectInRun)
ConnectBody ==
  /\ ci < Len(cfg.conns[run])
  /\ LET c == cfg.conns[run][ci + 1] IN
       /\ tbl' = [tbl EXCEPT ![c.flow] = Upd(@, <<c.from, c.act>>, c.to)]
       /\ h' = Append(h, EvConnect(c.flow, c.from, c.act, c.to))
  /\ ci' = ci + 1
  /\ UNCHANGED <<cfg, stack, ctx, ret, ph, tok, run>>
Connect == ph = "setup" /\ (Dyn => ci < cfg.pre[run]) /\ ConnectBody

\* Dynamic wiring: a node's post callback connects nodes of a flow while that flow is running (a "planner" node).  The
\* table is a plain map read by Flow.Exec after every node (flyt.go:890): a Connect made inside the callback counts for
\* the routing decision that follows it.  Scenario: the first cfg.pre[run] Connect calls of the run are made before it
\* starts, the others from inside post callbacks, in order.
ConnectInRun == ph = "running" /\ stack # <<>> /\ Top.t = "run" /\ Top.pc = "post" /\ ~ret.some /\ Node(Top.n).kind # "flow"
                /\ Dyn /\ ConnectBody

\* flyt.Run(ctx, top, store) is called; the context may already be done
StartRun ==
  /\ ph = "setup"
  /\ IF Dyn THEN (ci >= cfg.pre[run] \/ ci = Len(cfg.conns[run])) ELSE ci = Len(cfg.conns[run])
  /\ ctx' = IF cfg.ctx0[run] THEN "done" ELSE ctx
  /\ h' = Append(h, [ev |-> "runcall", node |-> cfg.top, ctxdone |-> (ctx' = "done")])
  /\ stack' = <<RunFrame(cfg.top)>>
  /\ ph' = "running"
  /\ ret' = NoRet
  /\ UNCHANGED <<cfg, tbl, tok, ci, run>>

(* ---------------------------------------------------------------------- *)
(* Run frame (flyt.go:681-761)                                            *)
(* ---------------------------------------------------------------------- *)
InRun(pc) == ph = "running" /\ stack # <<>> /\ Top.t = "run" /\ Top.pc = pc /\ ~ret.some

\* pop the current frame and hand r to the caller
Return(r) == /\ stack' = Pop
             /\ ret' = r

\* flyt.go:691  context check before prep
Ctx0 ==
  /\ InRun("ctx0")
  /\ IF ctx = "done"
       THEN Return(RetErr(CtxErr))
       ELSE stack' = SetTop([Top EXCEPT !.pc = "prep"]) /\ ret' = ret
  /\ UNCHANGED <<cfg, tbl, ctx, h, ph, tok, ci, run>>

\* flyt.go:696  user Prep callback of a leaf
PrepCb(o) ==
  /\ InRun("prep") /\ HasCallbacks(Top.n) /\ WellFormedOut(o)
  /\ h' = Append(h, EvPrep(Top.n, o, tok))
  /\ tok' = tok + 1
  /\ ctx' = IF o.cancel THEN "done" ELSE ctx
  /\ IF o.out = "ok"
       THEN stack' = SetTop([Top EXCEPT !.pc = IF IsBLeaf(Top.n) THEN "bitem" ELSE "ctx1", !.pv = Raw(ValTok(o, tok)),
                                        !.N = Budget(Top.n), !.att = 0]) /\ ret' = ret
       ELSE Return(RetErr(TokErr(tok)))
  /\ UNCHANGED <<cfg, tbl, ph, ci, run>>

\* Flow.Prep (flyt.go:856): returns the store, cannot fail
PrepFlow ==
  /\ InRun("prep") /\ IsFlow(Top.n)
  /\ stack' = SetTop([Top EXCEPT !.pc = "ctx1"])
  /\ UNCHANGED <<cfg, tbl, ctx, ret, h, ph, tok, ci, run>>

\* flyt.go:702  context check after prep; then the budget is read once (:707-713)
Ctx1 ==
  /\ InRun("ctx1")
  /\ IF ctx = "done"
       THEN Return(RetErr(CtxErr))
       ELSE stack' = SetTop([Top EXCEPT !.pc = "loop", !.N = Budget(Top.n), !.att = 0]) /\ ret' = ret
  /\ UNCHANGED <<cfg, tbl, ctx, h, ph, tok, ci, run>>

\* flyt.go:719-723  loop head: budget test, then context check
LoopTop ==
  /\ InRun("loop")
  /\ IF Top.att >= Top.N
       THEN stack' = SetTop([Top EXCEPT !.pc = "after"]) /\ ret' = ret
       ELSE IF ctx = "done"
              THEN IF IsBLeaf(Top.n)
                     THEN stack' = SetTop([Top EXCEPT !.pc = "post", !.xv = ERes(-1), !.xe = NoErr]) /\ ret' = ret  \* the item fails, the batch goes on to post
                     ELSE Return(RetErr(CtxErr))
              ELSE stack' = SetTop([Top EXCEPT !.pc = IF Top.att > 0 /\ Node(Top.n).w > 0 THEN "wait" ELSE "exec"]) /\ ret' = ret
  /\ UNCHANGED <<cfg, tbl, ctx, h, ph, tok, ci, run>>

\* batch node: the per-item context check of the sequential path (batch.go:233-239)
BItemTop ==
  /\ InRun("bitem")
  /\ IF ctx = "done"
       THEN stack' = SetTop([Top EXCEPT !.pc = "post", !.xv = ERes(-1), !.xe = NoErr])
       ELSE stack' = SetTop([Top EXCEPT !.pc = "loop"])
  /\ UNCHANGED <<cfg, tbl, ctx, ret, h, ph, tok, ci, run>>

\* flyt.go:725-732  the wait between attempts elapses ...
WaitElapsed ==
  /\ InRun("wait") /\ ctx = "live"
  /\ stack' = SetTop([Top EXCEPT !.pc = "exec"])
  /\ UNCHANGED <<cfg, tbl, ctx, ret, h, ph, tok, ci, run>>
\* ... or is interrupted by the context
WaitCancelled ==
  /\ InRun("wait") /\ ctx = "done"
  /\ IF IsBLeaf(Top.n)
       THEN stack' = SetTop([Top EXCEPT !.pc = "post", !.xv = ERes(-1), !.xe = NoErr]) /\ ret' = ret
       ELSE Return(RetErr(CtxErr))
  /\ UNCHANGED <<cfg, tbl, ctx, h, ph, tok, ci, run>>

\* a cancellation that arrives from outside while the run waits between two attempts (a timer, another goroutine).  For
\* the callbacks it is indistinguishable from the failed attempt cancelling the context as its last act, and the history
\* records it there (the last event is that attempt's: nothing is logged between a failed attempt and the wait).  How
\* promptly the wait ends is the timed specification's business (FlytRetryTimed), what happens afterwards is this one's.
CancelDuringWait ==
  /\ cfg.cancel /\ InRun("wait") /\ ctx = "live" /\ h # <<>> /\ h[Len(h)].ev = "exec"
  /\ ctx' = "done"
  /\ h' = [h EXCEPT ![Len(h)].cancel = TRUE]
  /\ UNCHANGED <<cfg, tbl, stack, ret, ph, tok, ci, run>>

\* after an attempt: success leaves the loop, failure goes round again (:734-737)
AfterAttempt(f, ok, v, e) ==
  IF ok THEN [f EXCEPT !.pc = "after", !.xv = v, !.xe = NoErr, !.att = f.att + 1]
        ELSE [f EXCEPT !.pc = "loop", !.xv = NilVal, !.xe = e, !.att = f.att + 1]

\* flyt.go:734  user Exec callback of a leaf, attempt att+1
ExecCb(o) ==
  /\ InRun("exec") /\ HasCallbacks(Top.n) /\ WellFormedOut(o)
  /\ h' = Append(h, EvExec(Top.n, Top.att + 1, Top.pv, o, tok))
  /\ tok' = tok + 1
  /\ ctx' = IF o.cancel THEN "done" ELSE ctx
  \* (an attempt that cancels the context and fails may report the context's own error - wrapped in its error value -
  \* as a well-behaved exec function does; the harness does so for odd tokens)
  /\ stack' = SetTop(AfterAttempt(Top, o.out # "err",
                       IF o.out = "eres" THEN ERes(tok) ELSE Raw(ValTok(o, tok)),
                       [TokErr(tok) EXCEPT !.ctx = (o.cancel /\ tok % 2 = 1)]))
  /\ UNCHANGED <<cfg, tbl, ret, ph, ci, run>>

\* Flow.Exec entered (flyt.go:862-874)
ExecFlowEnter ==
  /\ InRun("exec") /\ IsFlow(Top.n)
  /\ IF Node(Top.n).start = NIL
       THEN stack' = SetTop(AfterAttempt(Top, FALSE, NilVal, OtherErr))   \* "no start node configured"
       ELSE stack' = <<FlowFrame(Top.n), [Top EXCEPT !.pc = "execwait"]>> \o Tail(stack)
  /\ UNCHANGED <<cfg, tbl, ctx, ret, h, ph, tok, ci, run>>

\* Flow.Exec returned to the Run frame that called it
ExecFlowReturn ==
  /\ ph = "running" /\ stack # <<>> /\ Top.t = "run" /\ Top.pc = "execwait" /\ ret.some
  /\ stack' = SetTop(AfterAttempt(Top, ~ret.err.is, Raw(ret.act), ret.err))
  /\ ret' = NoRet
  /\ UNCHANGED <<cfg, tbl, ctx, h, ph, tok, ci, run>>

\* flyt.go:741-748  after the loop: fallback decision
AfterLoop ==
  /\ InRun("after")
  /\ IF ~Top.xe.is
       THEN stack' = SetTop([Top EXCEPT !.pc = "post"]) /\ ret' = ret
       ELSE IF HasFb(Top.n)
              THEN stack' = SetTop([Top EXCEPT !.pc = "fb"]) /\ ret' = ret
              ELSE IF IsBLeaf(Top.n)
                     THEN \* the item's error stays in its slot; post runs
                          stack' = SetTop([Top EXCEPT !.pc = "post", !.xe = NoErr,
                                                      !.xv = ERes(CHOOSE t \in Top.xe.toks : TRUE)]) /\ ret' = ret
                     ELSE Return(RetErr(Top.xe))      \* no (or inherited default) fallback: error returned, wrapped
  /\ UNCHANGED <<cfg, tbl, ctx, h, ph, tok, ci, run>>

\* flyt.go:743  user ExecFallback callback
FbCb(o) ==
  /\ InRun("fb") /\ WellFormedOut(o)
  /\ h' = Append(h, EvFb(Top.n, Top.pv, Top.xe, o, tok))
  /\ tok' = tok + 1
  /\ ctx' = IF o.cancel THEN "done" ELSE ctx
  /\ IF o.out = "ok"
       THEN stack' = SetTop([Top EXCEPT !.pc = "post", !.xv = Raw(ValTok(o, tok)), !.xe = NoErr]) /\ ret' = ret
       ELSE Return(RetErr(TokErr(tok)))
  /\ UNCHANGED <<cfg, tbl, ph, ci, run>>

\* flyt.go:751-760  user Post callback; the empty action is normalised
PostCb(o) ==
  /\ InRun("post") /\ HasCallbacks(Top.n)
  /\ h' = Append(h, EvPost(Top.n, Top.pv, Top.xv, o, tok))
  /\ tok' = tok + 1
  /\ ctx' = IF o.cancel THEN "done" ELSE ctx
  /\ IF o.out = "ok"
       THEN Return(RetOk(IF o.act = NIL THEN DefaultAct ELSE o.act))
       ELSE Return(RetErr(TokErr(tok)))
  /\ UNCHANGED <<cfg, tbl, ph, ci, run>>

\* Flow.Post (flyt.go:909-915): the last action, DefaultAction if there is none
PostFlow ==
  /\ InRun("post") /\ IsFlow(Top.n)
  /\ Return(RetOk(IF Top.xv.t = NIL THEN DefaultAct ELSE Top.xv.t))
  /\ UNCHANGED <<cfg, tbl, ctx, h, ph, tok, ci, run>>

(* ---------------------------------------------------------------------- *)
(* Flow frame (flyt.go:873-906)                                           *)
(* ---------------------------------------------------------------------- *)
InFlow(st) == ph = "running" /\ stack # <<>> /\ Top.t = "flow" /\ Top.st = st

\* loop head: stop on nil, check the context, run the current node
FlowTop ==
  /\ InFlow("top") /\ ~ret.some
  /\ IF Top.cur = NIL
       THEN Return(RetOk(Top.last))
       ELSE IF ctx = "done"
              THEN Return(RetErr(CtxErr))
              ELSE stack' = <<RunFrame(Top.cur), [Top EXCEPT !.st = "child"]>> \o Tail(stack) /\ ret' = ret
  /\ UNCHANGED <<cfg, tbl, ctx, h, ph, tok, ci, run>>

HasConn(f, n, a) == <<n, a>> \in DOMAIN tbl[f]

\* the child Run returned: error is passed up unchanged; otherwise route on the action
FlowRoute ==
  /\ InFlow("child") /\ ret.some
  /\ IF ret.err.is
       THEN Return(RetErr(ret.err))
       ELSE IF HasConn(Top.n, Top.cur, ret.act)
              THEN /\ stack' = SetTop([Top EXCEPT !.cur = tbl[Top.n][<<Top.cur, ret.act>>],
                                                  !.last = ret.act, !.st = "top"])
                   /\ ret' = NoRet
              ELSE Return(RetOk(ret.act))      \* break: no transition for this action
  /\ UNCHANGED <<cfg, tbl, ctx, h, ph, tok, ci, run>>

(* ---------------------------------------------------------------------- *)
(* the top-level call returns                                             *)
(* ---------------------------------------------------------------------- *)
Finish ==
  /\ ph = "running" /\ stack = <<>> /\ ret.some
  /\ h' = Append(h, EvRunRet(ret))
  /\ IF run < cfg.runs
       THEN /\ ph' = "setup" /\ run' = run + 1 /\ ci' = 0
            /\ ctx' = "live"       \* every run gets a fresh context from the harness
       ELSE /\ ph' = "done" /\ UNCHANGED <<run, ci, ctx>>
  /\ ret' = NoRet
  /\ UNCHANGED <<cfg, tbl, stack, tok>>

\* A user callback panics.  The library has no recover: the panic unwinds every frame of the run and reaches the caller
\* of flyt.Run (the harness recovers it there and logs "panic").  Nothing is returned, no further callback is made.
Panics == "panic" \in cfg.outs
PanicEnd(cbev) ==
  /\ Panics
  /\ h' = h \o <<cbev, [ev |-> "panic"]>>
  /\ tok' = tok + 1
  /\ stack' = <<>> /\ ret' = NoRet
  /\ IF run < cfg.runs
       THEN ph' = "setup" /\ run' = run + 1 /\ ci' = 0 /\ ctx' = "live"
       ELSE ph' = "done" /\ UNCHANGED <<run, ci, ctx>>
  /\ UNCHANGED <<cfg, tbl>>
PanicOut == [out |-> "panic", nilv |-> FALSE, cancel |-> FALSE]
PrepPanic == InRun("prep") /\ HasCallbacks(Top.n) /\ PanicEnd(EvPrep(Top.n, PanicOut, tok))
ExecPanic == InRun("exec") /\ HasCallbacks(Top.n) /\ PanicEnd(EvExec(Top.n, Top.att + 1, Top.pv, PanicOut, tok))
PostPanic == InRun("post") /\ HasCallbacks(Top.n) /\ PanicEnd(EvPost(Top.n, Top.pv, Top.xv, [out |-> "panic", act |-> 0, cancel |-> FALSE], tok))
CallbackPanic == PrepPanic \/ ExecPanic \/ PostPanic

Internal ==
  \/ Ctx0 \/ PrepFlow \/ Ctx1 \/ LoopTop \/ BItemTop \/ WaitElapsed \/ WaitCancelled
  \/ ExecFlowEnter \/ ExecFlowReturn \/ AfterLoop \/ PostFlow \/ FlowTop \/ FlowRoute

Callback ==
  \/ \E o \in PrepOuts(Top.n) : PrepCb(o)
  \/ \E o \in ExecOuts(Top.n) : ExecCb(o)
  \/ \E o \in FbOuts(Top.n)   : FbCb(o)
  \/ \E o \in PostOuts(Top.n) : PostCb(o)

Next == Connect \/ ConnectInRun \/ StartRun \/ Internal \/ CancelDuringWait \/ (ph = "running" /\ stack # <<>> /\ Top.t = "run" /\ (Callback \/ CallbackPanic)) \/ Finish

(* ---------------------------------------------------------------------- *)
(* design-level invariants (state predicates, independent of h)           *)
(* ---------------------------------------------------------------------- *)
TypeOK ==
  /\ ph \in {"setup", "running", "done"}
  /\ ctx \in {"live", "done"}
  /\ \A i \in 1..Len(stack) : stack[i].t \in {"run", "flow"}

\* C02, state form: never more attempts than the budget; fallback only after N failures
AttemptBound ==
  \A i \in 1..Len(stack) : stack[i].t = "run" /\ stack[i].pc \notin {"ctx0", "prep", "ctx1"}
      => /\ stack[i].att <= stack[i].N
         /\ (stack[i].pc = "fb" => stack[i].att = stack[i].N /\ stack[i].xe.is)
         /\ (stack[i].pc = "post" => ~stack[i].xe.is)

\* C18, state form: a successful return carries a non-empty action
NoEmptyAction == (ret.some /\ ~ret.err.is /\ stack = <<>>) => ret.act # NIL

\* call-stack shape: run and flow frames alternate
StackShape ==
  \A i \in 1..Len(stack) - 1 :
     /\ stack[i].t = "run"  => stack[i+1].t = "flow" /\ stack[i+1].st = "child"
     /\ stack[i].t = "flow" => stack[i+1].t = "run"  /\ stack[i+1].pc = "execwait"
=============================================================================
