------------------------------ MODULE TPEngine ------------------------------
(***************************************************************************)
(* Verdict front-end of the engine family: reads a file of histories       *)
(* recorded from the real library (ndjson; scenarios separated by `reset`  *)
(* records carrying the configuration), one scenario per line: configuration + history) and evaluates  *)
(* the property predicates of PropsEngine on every history.                               *)
(*                                                                         *)
(* One line is printed per failing (scenario, property):                   *)
(*     <<"FAIL", scn, "C02", {failing clause names}>>                      *)
(* one per scenario whose history differs from the behaviour TLC exported  *)
(* for it (spec -> code conformance):  <<"DRIFT", scn>>                    *)
(* and a summary with per-property hit counters at the end of the file.    *)
(*                                                                         *)
(* Environment: TRACE = path of the ndjson file, PROPS = comma separated   *)
(* property ids to evaluate (or "ALL").                                    *)
(***************************************************************************)
EXTENDS Integers, Sequences, FiniteSets, TLC, Json, IOUtils

P == INSTANCE PropsEngine

Trace == ndJsonDeserialize(IOEnv.TRACE)
Props == IOEnv.PROPS

VARIABLES i,      \* next scenario (line) of the file
          stats   \* counters

vars == <<i, stats>>

Want(p) == Props = "ALL" \/ \E k \in 1..(Len(Props) - 2) : SubSeq(Props, k, k + 2) = p

\* evaluate the selected predicates on a finished scenario; print failures
Judge(c, hist, S) ==
  LET cfg == c.cfg
      \* a run of the same node object nested into one of the scenario's exec callbacks (own store, own values) left
      \* the scenario's events unchanged: prep value, attempts and results are data of a run, not of the node object
      Reent == IF "reent" \in DOMAIN c /\ ~c.reent THEN {"nestedRunInvisible"} ELSE {}
  IN \E res \in {[C01 |-> IF Want("C01") THEN P!Failing(P!C01_Clauses(cfg, S)) \cup Reent ELSE {},
              C02 |-> IF Want("C02") THEN P!Failing(P!C02_Clauses(cfg, S)) \cup (IF c.flowrun THEN {} ELSE {"flowRunConvenience"}) ELSE {},
              C03 |-> IF Want("C03") THEN P!Failing(P!C03_Clauses(cfg, S)) \cup (IF c.flowrun THEN {} ELSE {"flowRunConvenience"}) ELSE {},
              C04 |-> IF Want("C04") THEN P!Failing(P!C04_Clauses(cfg, S)) \cup (IF c.flowrun THEN {} ELSE {"flowRunConvenience"}) ELSE {},
              C05 |-> IF Want("C05") THEN P!Failing(P!C05_Clauses(cfg, S)) \cup (IF c.flowrun THEN {} ELSE {"flowRunConvenience"}) ELSE {},
              C10 |-> IF Want("C10") THEN P!Failing(P!C10_Clauses(cfg, S)) \cup (IF c.flowrun THEN {} ELSE {"flowRunConvenience"}) \cup Reent ELSE {},
              C11 |-> IF Want("C11") THEN P!Failing(P!C11E_Clauses(cfg, S)) \cup (IF c.flowrun THEN {} ELSE {"flowRunConvenience"}) ELSE {},
              C17 |-> IF Want("C17") THEN P!Failing(P!C17_Clauses(cfg, S)) \cup Reent ELSE {},
              C18 |-> IF Want("C18") THEN P!Failing(P!C18_Clauses(cfg, S)) ELSE {}]} :
     \* scenarios with a retry budget below one are outside every property: they are only trace-validated
     \* scenarios with panicking callbacks: whether a panic propagates or is turned into an error is the library's
     \* choice; what a run that does return must satisfy is not - an action or an error, never neither, never the empty
     \* action with a nil error
     \* (scenarios with a retry budget below one: the budget-independent properties - routing, cancellation, nesting, the
     \* action rule - are judged; the lifecycle and budget properties are quantified over budgets >= 1)
     LET bad == IF c.fam = "enginezero" THEN {p \in {"C03", "C05", "C10", "C18"} : res[p] # {}}
                ELSE IF c.fam = "enginepanic"
                     THEN {p \in {"C01", "C18"} : res[p] \cap {"retXor", "nonEmpty"} # {}}
                     ELSE {p \in DOMAIN res : res[p] # {}} IN
     /\ \A p \in bad : PrintT(<<"FAIL", c.scn, p, IF c.fam = "enginepanic" THEN res[p] \cap {"retXor", "nonEmpty"} ELSE res[p]>>)
     /\ (c.hasexp /\ c.exp # hist) => PrintT(<<"DRIFT", c.scn>>)

\* a run of tens of thousands of rounds of one body (a nested flow around one node, repeated by its parent until the node
\* says "done"): the harness counts the callbacks instead of keeping them.  The table determines the path whatever its
\* length: every round is one prep, one exec, one post of the node, in that order, on the run's store, and the run ends
\* with the node's last action and no error.  The same for a straight chain of several hundred distinct nodes: the k-th
\* visit is node k (checked by the harness as the callbacks come: `inorder`), each node is visited once.
JudgeLong(c) ==
  LET L == SelectSeq(c.h, LAMBDA e : e.ev = "longrun")
      R == SelectSeq(c.h, LAMBDA e : e.ev = "runret")
      bad == (IF Len(L) = 1 /\ L[1].preps = L[1].rounds /\ L[1].execs = L[1].rounds /\ L[1].posts = L[1].rounds /\ L[1].fbs = 0
                 /\ L[1].inorder /\ L[1].sok THEN {} ELSE {"longRunFollowsTable"})
             \cup (IF Len(R) = 1 /\ Len(L) = 1 /\ ~R[1].iserr /\ R[1].act = L[1].endact THEN {} ELSE {"longRunEnds"})
  IN \A p \in {q \in {"C01", "C03", "C04", "C10"} : Want(q) /\ bad # {}} : PrintT(<<"FAIL", c.scn, p, bad>>)

HitKeys == {"retried", "fallback", "failedRun", "cancelled", "multiNode", "nested", "emptyAct", "eres", "funcNode"}

Init == /\ i = 1
        /\ stats = [scenarios |-> 0, events |-> 0, hits |-> [k \in HitKeys |-> 0]]

Next ==
  /\ i <= Len(Trace)
  /\ i' = i + 1
  \* TLC does not cache LET definitions while it evaluates an action: binding the digest with a
  \* quantifier over a singleton set makes it a value that is computed once
  /\ \E c \in {Trace[i]} :
      IF c.fam = "enginelong"
      THEN /\ JudgeLong(c)
           /\ stats' = [stats EXCEPT !.scenarios = @ + 1, !.events = @ + Len(c.h)]
      ELSE \E S \in {P!Segs(c.h)} : \E x \in {P!EngineHits(c.cfg, S)} :
        /\ Judge(c, c.h, S)
        /\ stats' = [scenarios |-> stats.scenarios + 1, events |-> stats.events + Len(c.h),
                     hits |-> [k \in HitKeys |-> stats.hits[k] + (IF x[k] THEN 1 ELSE 0)]]
  /\ (i = Len(Trace) => PrintT(<<"SUMMARY", stats'>>))

Spec == Init /\ [][Next]_vars

\* the whole file was consumed (one state per line plus the initial state)
Consumed == TLCGet("stats").diameter - 1 = Len(Trace)
=============================================================================
