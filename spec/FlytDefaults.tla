------------------------------ MODULE FlytDefaults ------------------------------
(***************************************************************************)
(* Nodes that provide only some of their phases.                           *)
(*                                                                         *)
(* A struct node that embeds *flyt.BaseNode inherits the default Prep      *)
(* (nil), Exec (nil), Post (DefaultAction) and ExecFallback (returns the   *)
(* error) - flyt.go:605-630; a function node built with flyt.NewNode uses  *)
(* the same defaults for every function that was not given                 *)
(* (CustomNode, flyt.go:1117-1170); a batch node without prep function has *)
(* no items, without exec function its slots hold nil, without post        *)
(* function it answers DefaultAction (batch.go:34-50).                     *)
(*                                                                         *)
(* The table below says, for every combination of provided phases, node    *)
(* kind and outcome of the (single) exec attempt, which callbacks run,     *)
(* what they are handed, and what the run returns - i.e. the lifecycle of  *)
(* C01 (and the action rule of C18) for partial nodes: an absent phase     *)
(* behaves exactly like a present one that returns nil / DefaultAction /   *)
(* the error it was given.  TLC enumerates the cells and checks the        *)
(* relations between them; the harness builds every cell as a real node,   *)
(* runs it on its own and as the first step of a flow, and logs plain      *)
(* facts that CellOK compares with the table.                              *)
(***************************************************************************)
EXTENDS Integers, Sequences, FiniteSets, TLC, Json

Kinds == {"struct", "funcR", "funcA", "builderR", "builderA", "batch"}

\* (xnil: the exec function answers flyt.NewErrorResult(nil) - built by the error constructor from a nil error, e.g.
\* NewErrorResult(validate(x)) for a valid x: a Result without an error is a success whose value is nil)
\* [kind, hp, he, hpo, hfb, fails, pres]: which of prep / exec / post / fallback the node provides; does the exec attempt
\* fail; pres: the value prep returns is itself a flyt.Result (a value like any other)
Cells == {c \in [kind : Kinds, hp : BOOLEAN, he : BOOLEAN, hpo : BOOLEAN, hfb : BOOLEAN, fails : BOOLEAN, pres : BOOLEAN, xnil : BOOLEAN] :
            /\ (c.xnil => c.he /\ ~c.fails /\ c.kind \in {"funcR", "builderR", "batch"})
            /\ (c.fails => c.he)                    \* only a provided exec can fail
            /\ (c.kind = "batch" => ~c.hfb /\ ~c.pres)  \* the batch builder has no fallback function
            /\ (c.pres => c.hp)}

\* value tokens: "P" what prep returns, "X" what exec returns, "F" what the fallback returns, "nil"
Expected(c) ==
  IF c.kind = "batch" THEN
    LET n == IF c.hp THEN 2 ELSE 0 IN               \* prep provides two items
    [prep   |-> IF c.hp THEN 1 ELSE 0,
     exec   |-> IF c.he THEN n ELSE 0,              \* one attempt per item (budget 1)
     fb     |-> 0,
     post   |-> IF c.hpo THEN 1 ELSE 0,             \* a batch's post always runs
     execarg  |-> IF c.he /\ n > 0 THEN "item" ELSE "none",
     postprep |-> IF c.hpo THEN (IF n = 0 THEN "empty" ELSE "items") ELSE "none",
     postexec |-> IF ~c.hpo THEN "none" ELSE IF n = 0 THEN "empty" ELSE IF ~c.he THEN "nil" ELSE IF c.fails THEN "err" ELSE IF c.xnil THEN "nil" ELSE "X",
     iserr  |-> FALSE,
     action |-> IF c.hpo THEN "A" ELSE "default"]
  ELSE
    LET phaseok == ~c.he \/ ~c.fails \/ c.hfb IN
    [prep   |-> IF c.hp THEN 1 ELSE 0,
     exec   |-> IF c.he THEN 1 ELSE 0,
     fb     |-> IF c.he /\ c.fails /\ c.hfb THEN 1 ELSE 0,
     post   |-> IF c.hpo /\ phaseok THEN 1 ELSE 0,
     \* a prep value that is itself a Result travels on as that Result; the function-style Exec, which hands a prep value
     \* that already is a Result to the exec function as its argument (flyt.go:1133), thereby shows it the inner value
     execarg  |-> IF ~c.he THEN "none" ELSE IF ~c.hp THEN "nil" ELSE IF c.pres /\ c.kind = "struct" THEN "res(P)" ELSE "P",
     postprep |-> IF ~(c.hpo /\ phaseok) THEN "none" ELSE IF ~c.hp THEN "nil" ELSE IF c.pres THEN "res(P)" ELSE "P",
     postexec |-> IF ~(c.hpo /\ phaseok) THEN "none"
                  ELSE IF ~c.he THEN "nil" ELSE IF c.xnil THEN "nil" ELSE IF ~c.fails THEN "X" ELSE "F",
     iserr  |-> ~phaseok,
     action |-> IF ~phaseok THEN "" ELSE IF c.hpo THEN "A" ELSE "default"]

\* the node as the first step of a flow whose table connects "default" and "A": which successor runs
Route(c) == LET e == Expected(c) IN IF e.iserr THEN "none" ELSE e.action

\* relations between the cells
TableConsistent ==
  \A c \in Cells : LET e == Expected(c) IN
    /\ (e.iserr <=> e.action = "")                                   \* action xor error (C01), never the empty action on success (C18)
    /\ (e.post = 1 => ~e.iserr)                                      \* post only after a successful exec phase
    /\ (~c.he => ~e.iserr)                                           \* an absent exec cannot fail
    /\ (e.fb = 1 => c.fails)                                         \* the fallback only after a failure
    \* an absent phase is neutral: providing prep changes nothing but the values handed on
    /\ (~c.hp => LET d == Expected([c EXCEPT !.hp = TRUE]) IN
                   c.kind # "batch" => (d.exec = e.exec /\ d.fb = e.fb /\ d.post = e.post /\ d.iserr = e.iserr /\ d.action = e.action))
    \* ... and providing post changes nothing but the action
    /\ (~c.hpo => LET d == Expected([c EXCEPT !.hpo = TRUE]) IN
                   d.prep = e.prep /\ d.exec = e.exec /\ d.fb = e.fb /\ d.iserr = e.iserr)

(* verdict on the facts logged for one cell:                                *)
(*   e = [ev |-> "defaults", kind, hp, he, hpo, hfb, fails, prep, exec, fb, post, execarg, postprep, postexec,   *)
(*        iserr, errmatch, action, route, panicked]                                                              *)
CellOf(e) == [kind |-> e.kind, hp |-> e.hp, he |-> e.he, hpo |-> e.hpo, hfb |-> e.hfb, fails |-> e.fails, pres |-> e.pres, xnil |-> e.xnil]
Defaults_Failing(h) ==
  UNION {LET e == h[i] x == Expected(CellOf(h[i])) IN
           (IF e.panicked THEN {"partialNodeRuns"} ELSE {})
           \cup (IF <<e.prep, e.exec, e.fb, e.post>> # <<x.prep, x.exec, x.fb, x.post>> THEN {"partialLifecycle"} ELSE {})
           \* (what post is shown for a Result built by NewErrorResult(nil) - a nil value, or an error state without an
           \* error - is the constructor's business; that the run then succeeds with post's action is the lifecycle's)
           \cup (IF <<e.execarg, e.postprep, e.postexec>> # <<x.execarg, x.postprep, x.postexec>>
                    /\ ~(e.xnil /\ e.execarg = x.execarg /\ e.postprep = x.postprep /\ e.postexec = "err" /\ x.postexec = "nil")
                 THEN {"partialValues"} ELSE {})
           \cup (IF e.iserr # x.iserr \/ (x.iserr /\ ~e.errmatch) THEN {"partialError"} ELSE {})
           \cup (IF e.action # x.action \/ e.route # Route(CellOf(e)) THEN {"partialAction"} ELSE {})
         : i \in {j \in 1..Len(h) : h[j].ev = "defaults"}}

\* model-checking view: one state per cell
VARIABLE cell
DInit == cell \in Cells
DNext == UNCHANGED cell
DSpec == DInit /\ [][DNext]_cell
DCellInv == TableConsistent
ExportCell == PrintT("SCN " \o ToJson(cell))
=============================================================================
