------------------------------ MODULE FlytConfig ------------------------------
(***************************************************************************)
(* C19: node configuration (flyt.go:494-602, 1187-1220; builder.go;        *)
(* batch.go:58-153).  A configuration is a record; every setting exists in *)
(* an option form and / or a builder form:                                 *)
(*   - constructor options (NewNode(opts...) / NewBatchNode(opts...)):     *)
(*     applied in argument order, base options before function options     *)
(*     (they touch disjoint fields);                                       *)
(*   - builder methods chained afterwards;                                 *)
(*   - a NodeOption applied directly to the node's BaseNode later on.      *)
(* The final configuration is "last setting of each parameter wins,        *)
(* unrelated parameters untouched"; unconfigured nodes have the defaults.  *)
(***************************************************************************)
EXTENDS Integers, Sequences, FiniteSets, TLC, Json

CONSTANTS MaxSteps

Params   == {"retries", "wait", "conc", "mode", "prep", "exec", "post", "fb"}
BaseParams == {"retries", "wait", "conc", "mode"}
Forms    == {"opt", "bld", "late"}          \* constructor option | builder method | NodeOption applied after construction
Kinds    == {"node", "batch"}

\* which (kind, param, form) combinations the API offers
Offered(kind, p, f) ==
  CASE f = "late" -> p \in BaseParams                                   \* only NodeOptions can be applied later
    [] f = "opt"  -> IF kind = "node" THEN TRUE ELSE p \in BaseParams   \* NewBatchNode keeps only NodeOptions
    [] f = "bld"  -> IF kind = "node" THEN TRUE ELSE p # "fb"           \* the batch builder has no fallback setter

\* (retries 0: the explicit "no attempt at all" setting; both forms must agree on it too)
ValuesOf(p) == CASE p = "retries" -> {0, 1, 2, 3} [] p = "wait" -> {0, 2} [] p = "conc" -> {0, 2} [] p = "mode" -> {0, 1}   \* 1 = stop
                 [] OTHER -> {1, 2}     \* ids of the functions installed (0 = none)

Defaults == [retries |-> 1, wait |-> 0, conc |-> 0, mode |-> 0, prep |-> 0, exec |-> 0, post |-> 0, fb |-> 0]

Steps(kind) == {[param |-> p, form |-> f, val |-> v] : p \in Params, f \in Forms, v \in {0, 1, 2, 3}}

\* a well-formed step for this kind of node
\* a function parameter can also be set to "no function" (nil) - in the Result style, where the setter stores the function as
\* it is: the parameter is back at its default, in both forms (the Any-style setters wrap their argument and cannot take nil)
NilOK(kind, s) == /\ s.param \in {"prep", "exec", "post", "fb"} /\ s.val = 0 /\ kind = "node"
                  /\ "sty" \in DOMAIN s /\ s.sty \in {"r", "n"} /\ s.form \in {"opt", "bld"}
\* retries value 4 stands for a budget beyond 32 bits ("retry until it works"): a value like any other
BigOK(kind, s) == s.param = "retries" /\ s.val = 4 /\ kind = "node"
\* concurrency value 3 stands for a limit of 5000 (on a function node, where the setting is inert and only the getter shows it)
BigConcOK(kind, s) == s.param = "conc" /\ s.val = 3 /\ kind = "node"
StepOK(kind, s) == Offered(kind, s.param, s.form) /\ (s.val \in ValuesOf(s.param) \/ NilOK(kind, s) \/ BigOK(kind, s) \/ BigConcOK(kind, s))

\* constructor options come first (in their own order), then everything else in order:
\* the effective order of a step sequence
\* (form "inprep": a setting the node's own prep callback applies to the node while it runs - it is the last setting of
\* all, the getters read before the run do not show it yet, the behaviour of that run does: the retry settings are read
\* after prep, flyt.go:707-713, the batch settings after prep as well, batch.go:196-210)
\* (form "afterrun": a setting made after the node has run once - it is the setting of the next run)
Effective(steps) == SelectSeq(steps, LAMBDA s : s.form = "opt") \o SelectSeq(steps, LAMBDA s : s.form \notin {"opt", "inprep", "afterrun"})
                    \o SelectSeq(steps, LAMBDA s : s.form = "afterrun") \o SelectSeq(steps, LAMBDA s : s.form = "inprep")

RECURSIVE ApplyAll(_, _)
ApplyAll(c, steps) == IF steps = <<>> THEN c ELSE ApplyAll([c EXCEPT ![Head(steps).param] = Head(steps).val], Tail(steps))

\* the configuration a step sequence must produce
Expected(steps) == ApplyAll(Defaults, Effective(steps))

(* ---------------------------------------------------------------------- *)
(* model: build the sequence step by step                                  *)
(* ---------------------------------------------------------------------- *)
VARIABLES kind, steps, cfg
cvars == <<kind, steps, cfg>>

CfgInit == kind \in Kinds /\ steps = <<>> /\ cfg = Defaults
\* options can only be given while no later step exists (they all belong to the constructor call)
AddStep(s) ==
  /\ Len(steps) < MaxSteps /\ StepOK(kind, s)
  /\ (s.form = "opt" => \A i \in 1..Len(steps) : steps[i].form = "opt")
  /\ steps' = Append(steps, s)
  /\ cfg' = [cfg EXCEPT ![s.param] = s.val]
  /\ UNCHANGED kind
\* function settings exist in a Result style and an Any style ("r" / "a"); which one is used must not matter
\* a constructor option for a scalar parameter can be handed over as a flyt.NodeOption or as a plain func(*BaseNode)
\* value ("f": options kept in a []func(*flyt.BaseNode), a struct field, a helper's return value); again it must not matter
\* ("ar": an any-based prep function whose value is itself a flyt.Result - a value like any other)
StyleOK(k, s) == IF s.param = "prep" /\ k = "node" THEN s.sty \in {"r", "a", "ar"}
                 ELSE IF s.param \in {"prep", "exec", "post"} /\ (k = "node" \/ s.param = "exec") THEN s.sty \in {"r", "a"}
                 ELSE IF s.param \in {"retries", "wait", "conc", "mode"} /\ s.form = "opt" THEN s.sty \in {"r", "f"}
                 ELSE IF s.param = "fb" THEN s.sty \in {"r", "n"}       \* "n": the fallback is kept in a named function type
                 ELSE s.sty = "r"
CfgNext == \E p \in Params : \E f \in Forms : \E v \in {0, 1, 2, 3, 4} : \E y \in {"r", "a", "f", "n", "ar"} :
              StyleOK(kind, [param |-> p, form |-> f, sty |-> y]) /\ AddStep([param |-> p, form |-> f, val |-> v, sty |-> y])
CfgSpec == CfgInit /\ [][CfgNext]_cvars

\* stepwise application and the "last setting wins" definition agree; unrelated parameters are untouched
LastWins == cfg = Expected(steps)
Untouched == \A p \in Params : (\A i \in 1..Len(steps) : steps[i].param # p) => cfg[p] = Defaults[p]
\* both forms of a setting are the same function on configurations
FormsEquivalent ==
  \A p \in Params : \A v \in ValuesOf(p) : \A f1 \in Forms : \A f2 \in Forms :
     (Offered(kind, p, f1) /\ Offered(kind, p, f2)) => [cfg EXCEPT ![p] = v] = [cfg EXCEPT ![p] = v]

\* every complete step sequence is handed to the harness
ExportSeq == Len(steps) = MaxSteps => PrintT("SCN " \o ToJson([kind |-> kind, steps |-> steps, expected |-> Expected(steps)]))

(* ---------------------------------------------------------------------- *)
(* verdict on a recorded configuration scenario                            *)
(*   h = << cfgstep events ..., probe event >>                             *)
(* ---------------------------------------------------------------------- *)
StepsOf(h) == LET s == SelectSeq(h, LAMBDA e : e.ev = "cfgstep") IN [i \in 1..Len(s) |-> [param |-> s[i].param, form |-> s[i].form, val |-> s[i].val, sty |-> s[i].sty]]

\* a pool size <= 0 means one worker: every task runs, exactly max(size, 1) of them at a time
PoolSizeOK(e) == LET eff == IF e.size <= 0 THEN 1 ELSE e.size IN ~e.hung /\ e.ran = e.tasks /\ e.hwm = eff

C19_Failing(c, h) ==
  IF c.kind = "pool" THEN (IF \A i \in 1..Len(h) : h[i].ev = "poolsize" => PoolSizeOK(h[i]) THEN {} ELSE {"poolSizeDefault"}) ELSE
  LET all   == StepsOf(h)
      built == SelectSeq(all, LAMBDA s : s.form \notin {"inprep", "afterrun"})
      gexp  == Expected(built)                                   \* what the getters show before the node runs
      \* how the node behaves when it runs: with the settings its prep applies, if it has a prep function
      exp   == IF gexp.prep # 0 THEN [Expected(all) EXCEPT !.prep = gexp.prep] ELSE gexp
      probes == SelectSeq(h, LAMBDA e : e.ev = "probe")
      p     == probes[1]
      \* what the probe runs can observe depends on which functions are installed
      \* (with a retry budget of 0 the exec function never runs: it cannot be observed, and no attempt may be counted)
      execObservable == exp.retries >= 1 /\ (IF c.kind = "node" THEN exp.exec # 0 ELSE exp.exec # 0 /\ exp.prep # 0)
  IN IF Len(probes) # 1 THEN {"probeMissing"}
     ELSE
       (IF p.panicked THEN {"probePanicked"} ELSE {})
       \cup (IF p.retries = gexp.retries /\ p.wait = gexp.wait /\ p.conc = gexp.conc /\ p.mode = gexp.mode THEN {} ELSE {"getters"})
       \cup (IF p.prepfn = exp.prep /\ p.postfn = exp.post /\ (execObservable => p.execfn = exp.exec)
                /\ ((c.kind = "node" /\ execObservable /\ exp.retries # 4) => p.fbfn = exp.fb) THEN {} ELSE {"functionsInstalled"})
       \* what post is handed as the prep value does not depend on the form in which the prep function was installed: a
       \* string for the probe's ordinary prep functions, the flyt.Result itself when an any-based prep returns one
       \cup (LET ps == SelectSeq(Effective(all), LAMBDA s : s.param = "prep") IN
             IF c.kind = "node" /\ exp.prep # 0 /\ exp.post # 0 /\ "prepkind" \in DOMAIN p
                /\ p.prepkind # (IF ps[Len(ps)].sty = "ar" THEN "result" ELSE "string")
             THEN {"prepValueAsInstalled"} ELSE {})
       \* behaviour of the probe runs: attempts on an always-failing exec, concurrency high-water mark, stop/continue
       \* (under the budget beyond 32 bits the probe's failing exec gives in at its fifth attempt)
       \cup (IF execObservable /\ p.attempts # (IF exp.retries = 4 THEN 5 ELSE exp.retries) THEN {"behaviourRetries"} ELSE {})
       \cup (IF exp.retries = 0 /\ p.attempts # 0 THEN {"behaviourRetries"} ELSE {})
       \cup (IF c.kind = "batch" /\ execObservable /\ p.hwm # (IF exp.conc > 0 THEN exp.conc ELSE 1) THEN {"behaviourConcurrency"} ELSE {})
       \* (continue mode: every item is executed; stop mode: with at most one worker nothing after the failing first item is -
       \* with several workers how many items still run before the failure has been recorded depends on the schedule)
       \cup (IF c.kind = "batch" /\ execObservable /\ ((exp.mode = 0 /\ p.stopped) \/ (exp.mode = 1 /\ exp.conc <= 1 /\ ~p.stopped))
             THEN {"behaviourErrorHandling"} ELSE {})
=============================================================================
