------------------------ MODULE FlytRetryTimedProof ------------------------
(***************************************************************************)
(* Unbounded safety of the timed retry loop: for EVERY budget N, wait W    *)
(* and clock bound, at least W elapses between the end of a failed attempt *)
(* and the start of the next one (WaitHonoured), the run only waits        *)
(* between attempts (WaitOnlyBetween), never makes more than N attempts    *)
(* (AttemptBound), and a cancellation arriving strictly inside a wait ends *)
(* the run at that very instant without a further attempt (PromptReturn,   *)
(* NoAttemptAfterCancelledWait).  Proved with TLAPS from the inductive invariant Inv;    *)
(* TLC checks the same invariant on bounded instances (cfg in fam_timing). *)
(***************************************************************************)
EXTENDS FlytRetryTimed, TLAPS

ASSUME ConstAssump == N \in Nat /\ W \in Nat /\ MaxTime \in Nat

PCs == {"loop", "wait", "exec", "inexec", "done"}
TypeInv ==
  /\ pc \in PCs /\ att \in Nat /\ now \in Nat /\ ws \in Nat
  /\ ctx \in {"live", "done"} /\ tcancel \in Int /\ cw \in BOOLEAN /\ tret \in Int /\ ok \in BOOLEAN
  /\ starts \in Seq(Nat) /\ ends \in Seq(Nat)

Inv ==
  /\ TypeInv
  /\ att <= N
  /\ Len(ends) = att
  /\ Len(starts) = IF pc = "inexec" THEN att + 1 ELSE att
  /\ pc = "inexec" => att < N
  /\ \A k \in 1..Len(ends) : ends[k] <= now
  /\ \A k \in 1..Len(starts) : starts[k] <= now
  /\ \A k \in 2..Len(starts) : starts[k] - ends[k-1] >= W
  /\ pc = "wait" => att > 0 /\ att < N /\ W > 0 /\ ws <= now /\ ends[att] <= ws
  /\ pc = "exec" => att < N /\ (att > 0 => now - ends[att] >= W)
  \* cancellation bookkeeping
  /\ cw => ctx = "done"
  /\ ctx = "done" => tcancel <= now
  /\ pc # "done" => tret = -1
  \* a cancellation that arrived strictly inside the wait freezes the clock until the run has returned
  /\ (cw /\ tcancel - ws < W) =>
        /\ pc \in {"wait", "done"}
        /\ \A k \in 1..Len(starts) : starts[k] <= tcancel
        /\ pc = "wait" => now = tcancel
        /\ pc = "done" => tret = tcancel

THEOREM InitInv == TInit => Inv
  BY ConstAssump DEF TInit, Inv, TypeInv, PCs

THEOREM NextInv == Inv /\ [TNext]_tvars => Inv'
<1> SUFFICES ASSUME Inv, [TNext]_tvars PROVE Inv'
  OBVIOUS
<1> USE ConstAssump DEF Inv, TypeInv, PCs
<1>1. CASE Tick
  BY <1>1 DEF Tick, Urgent
<1>2. CASE Cancel
  BY <1>2 DEF Cancel
<1>3. CASE LoopTop
  BY <1>3 DEF LoopTop, Return
<1>4. CASE WaitElapsed
  BY <1>4 DEF WaitElapsed
<1>5. CASE WaitCancelled
  BY <1>5 DEF WaitCancelled, Return
<1>6. CASE \E o \in BOOLEAN : ExecStart(o)
  BY <1>6 DEF ExecStart
<1>7. CASE ExecEnd
  BY <1>7 DEF ExecEnd, Return
<1>8. CASE UNCHANGED tvars
  BY <1>8 DEF tvars
<1> QED
  BY <1>1, <1>2, <1>3, <1>4, <1>5, <1>6, <1>7, <1>8 DEF TNext

THEOREM Safety == TSpec => [](WaitHonoured /\ WaitOnlyBetween /\ AttemptBound /\ PromptReturn /\ NoAttemptAfterCancelledWait)
<1>1. Inv => WaitHonoured /\ WaitOnlyBetween /\ AttemptBound /\ PromptReturn /\ NoAttemptAfterCancelledWait
  BY ConstAssump DEF Inv, TypeInv, PCs, WaitHonoured, WaitOnlyBetween, AttemptBound, PromptReturn, NoAttemptAfterCancelledWait
<1>2. TSpec => []Inv
  BY InitInv, NextInv, PTL DEF TSpec
<1> QED
  BY <1>1, <1>2, PTL
=============================================================================
