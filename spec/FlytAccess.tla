------------------------------ MODULE FlytAccess ------------------------------
(***************************************************************************)
(* C15: the typed accessors of flyt.Result (result.go) and of              *)
(* flyt.SharedStore (flyt.go:163-364) as a decision table.                 *)
(*                                                                         *)
(*   value class  x  accessor family  x  variant  x  carrier  ->  outcome  *)
(*                                                                         *)
(* Accepts(family, class) is the documented set of source types; Outcome   *)
(* derives every cell from it.  TLC enumerates the table and checks the    *)
(* consistency relations between its cells (TableConsistent); every cell   *)
(* is then exercised on the real library with several representative       *)
(* values of the class, and Judge compares the logged facts with the cell. *)
(***************************************************************************)
EXTENDS Integers, Sequences, FiniteSets, TLC, Json

IntKinds   == {"int", "int8", "int16", "int32", "int64", "uint", "uint8", "uint16", "uint32", "uint64"}
FloatKinds == {"float32", "float64", "nan", "inf"}           \* nan / inf are float64 values
SliceKinds == {"anyslice", "strslice", "intslice", "f64slice", "mapslice", "otherslice", "nilslice", "selfslice"}
OtherKinds == {"nil", "string", "bool", "map", "othermap", "func", "chan", "ptr", "nilptr", "array", "cstruct", "sstruct",
               "namedint", "namedstr", "namedslice", "errresult",
               "resultval"}     \* a value whose dynamic type is flyt.Result itself (a Result kept in a Result or in the store)
Classes    == IntKinds \cup FloatKinds \cup SliceKinds \cup OtherKinds

Families == {"String", "Int", "Float64", "Bool", "Slice", "Map"}
Variants == {"plain", "or", "must"}
Carriers == {"result", "store", "absent"}      \* a Result; a store key holding the value; a missing store key

\* the documented source types of each family
Accepts(f, c) ==
  CASE f = "String"  -> c = "string"
    [] f = "Int"     -> c \in IntKinds \cup FloatKinds
    [] f = "Float64" -> c \in IntKinds \cup FloatKinds
    [] f = "Bool"    -> c = "bool"
    [] f = "Slice"   -> c \in SliceKinds \cup {"namedslice"}    \* exactly the slice values (a typed nil slice is a slice value)
    [] f = "Map"     -> c = "map"                               \* map[string]any only

\* which cells exist: the store has no Must variants; an error Result exists only as a Result
CellExists(c, f, v, k) ==
  /\ (k # "result" => v # "must")
  /\ (c = "errresult" => k = "result")

\* "conv": the conversion of the value; "zero": the zero value, reported as not ok;
\* "default": the caller's default; "panic"
Outcome(c, f, v, k) ==
  IF k = "absent" THEN (IF v = "or" THEN "default" ELSE "zero")
  ELSE IF Accepts(f, c) THEN "conv"
  ELSE CASE v = "plain" -> "zero" [] v = "or" -> "default" [] v = "must" -> "panic"

Cells == {<<c, f, v, k>> \in Classes \X Families \X Variants \X Carriers : CellExists(c, f, v, k)}

\* relations between the cells that the property demands
TableConsistent ==
  /\ \* the non-Must accessors never panic
     \A x \in Cells : x[3] # "must" => Outcome(x[1], x[2], x[3], x[4]) # "panic"
  /\ \* Must panics  <=>  plain reports not ok  <=>  Or returns the default
     \A c \in Classes : \A f \in Families :
        /\ (Outcome(c, f, "must", "result") = "panic") = (Outcome(c, f, "plain", "result") = "zero")
        /\ (Outcome(c, f, "plain", "result") = "zero") = (Outcome(c, f, "or", "result") = "default")
  /\ \* the store getter agrees with the result accessor on the same value
     \A c \in Classes \ {"errresult"} : \A f \in Families : \A v \in {"plain", "or"} :
        Outcome(c, f, v, "store") = Outcome(c, f, v, "result")
  /\ \* a conversion succeeds exactly for the documented source types
     \A c \in Classes : \A f \in Families : (Outcome(c, f, "plain", "result") = "conv") = Accepts(f, c)

(* ---------------------------------------------------------------------- *)
(* verdict on the facts logged by the harness for one call                 *)
(*   e = [class, family, variant, carrier, panicked, ok, isdefault,        *)
(*        iszero, eqref]                                                   *)
(* ---------------------------------------------------------------------- *)
CallOK(e) ==
  LET out == Outcome(e.class, e.family, e.variant, e.carrier) IN
  CASE out = "panic"   -> e.panicked
    [] out = "conv"    -> ~e.panicked /\ e.eqref /\ (e.variant = "plain" /\ e.carrier = "result" => e.ok)
    [] out = "zero"    -> ~e.panicked /\ e.iszero /\ (e.variant = "plain" /\ e.carrier = "result" => ~e.ok)
    [] out = "default" -> ~e.panicked /\ e.isdefault

\* failing clause names for a sequence of access events
C15_Failing(h) ==
  LET bad == {i \in 1..Len(h) : h[i].ev = "access" /\ ~CallOK(h[i])}
  IN  {(IF h[i].panicked /\ Outcome(h[i].class, h[i].family, h[i].variant, h[i].carrier) # "panic" THEN "neverPanics"
        ELSE IF Outcome(h[i].class, h[i].family, h[i].variant, h[i].carrier) = "conv" THEN "faithfulConversion"
        ELSE "failureReported") : i \in bad}
      \cup (IF \E i \in 1..Len(h) : h[i].ev = "toslice" /\ ~h[i].ok THEN {"toSliceUtility"} ELSE {})
C15_BadCalls(h) == {<<h[i].class, h[i].rep, h[i].family, h[i].variant, h[i].carrier>> :
                       i \in {j \in 1..Len(h) : h[j].ev = "access" /\ ~CallOK(h[j])}}

\* model-checking view: one state per cell
VARIABLE cell
CInit == cell \in Cells
CNext == UNCHANGED cell
CSpec == CInit /\ [][CNext]_cell
CellInv == TableConsistent
\* every cell is handed to the harness
ExportCell == PrintT("SCN " \o ToJson([class |-> cell[1], family |-> cell[2], variant |-> cell[3], carrier |-> cell[4],
                                          outcome |-> Outcome(cell[1], cell[2], cell[3], cell[4])]))
=============================================================================
