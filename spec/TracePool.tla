------------------------------ MODULE TracePool ------------------------------
(***************************************************************************)
(* Trace validation of recorded worker-pool histories against FlytPool     *)
(* (code -> spec): submit / submitret / taskstart / taskend / waitcall /   *)
(* waitret / closecall+closeret / leak events must be produced by the      *)
(* corresponding actions with the logged task, submitter and worker; the   *)
(* channel send and the workers' exit are not logged and are inferred.     *)
(***************************************************************************)
EXTENDS FlytPool, Json, IOUtils
Trace == ndJsonDeserialize(IOEnv.TRACE)
VARIABLES i, l
tvars == <<cfg, sub, queue, wg, wk, closed, main, runs, fin, h, i, l>>
H == Trace[i].h
Ev == H[l]
Loaded == i <= Len(Trace)
More == Loaded /\ l <= Len(H)
CfgOf(c) == [W |-> c.W, S |-> c.S, per |-> c.per, rounds |-> c.rounds, gated |-> FALSE,
             qcap |-> IF "qcap" \in DOMAIN c THEN c.qcap ELSE -1, early |-> "early" \in DOMAIN c /\ c.early,
             selfwait |-> "selfwait" \in DOMAIN c /\ c.selfwait]
Empty == [W |-> 1, S |-> 1, per |-> 0, rounds |-> 1, gated |-> FALSE, qcap |-> -1, early |-> FALSE, selfwait |-> FALSE]
TInit == /\ i = 1 /\ l = 1 /\ IF Len(Trace) >= 1 THEN InitWith(CfgOf(Trace[1].cfg)) ELSE InitWith(Empty)
Matches1 == h' = Append(h, Ev)
Observable ==
  /\ More /\ i' = i
  /\ \/ Ev.ev = "submit"    /\ (\E s \in Subs : SubmitCall(s)) /\ Matches1 /\ l' = l + 1
     \/ Ev.ev = "submitret" /\ (\E s \in Subs : SubmitReturn(s)) /\ Matches1 /\ l' = l + 1
     \/ Ev.ev = "taskstart" /\ (\E w \in Workers : TaskStart(w)) /\ Matches1 /\ l' = l + 1
     \/ Ev.ev = "taskend"   /\ (\E w \in Workers : TaskEnd(w)) /\ Matches1 /\ l' = l + 1
     \/ Ev.ev = "waitcall"  /\ (WaitCall \/ \E s \in Subs : WaitCallS(s)) /\ Matches1 /\ l' = l + 1
     \/ Ev.ev = "waitret"   /\ (WaitRet \/ \E s \in Subs : WaitRetS(s)) /\ Matches1 /\ l' = l + 1
     \/ Ev.ev = "closecall" /\ Close /\ l + 1 <= Len(H) /\ h' = h \o <<H[l], H[l + 1]>> /\ l' = l + 2
     \/ Ev.ev = "closecall" /\ CloseEarlyCall /\ Matches1 /\ l' = l + 1
     \/ Ev.ev = "closeret"  /\ CloseEarlyRet /\ Matches1 /\ l' = l + 1
     \/ Ev.ev = "leak"      /\ LeakProbe /\ Matches1 /\ l' = l + 1
Silent == Loaded /\ ((\E s \in Subs : SubmitSend(s)) \/ (\E w \in Workers : Pickup(w) \/ Exit(w))) /\ UNCHANGED <<i, l>>
Fresh == /\ i' = i + 1 /\ l' = 1
         /\ LET c == IF i + 1 <= Len(Trace) THEN CfgOf(Trace[i + 1].cfg) ELSE Empty IN
            /\ cfg' = c
            /\ sub' = [s \in 1..c.S |-> [pc |-> "idle", next |-> 1, task |-> 0]]
            /\ queue' = <<>> /\ wg' = 0
            /\ wk' = [w \in 1..(IF c.W <= 0 THEN 1 ELSE c.W) |-> [st |-> "idle", task |-> 0]]
            /\ closed' = FALSE /\ main' = [pc |-> "submitting", round |-> 1]
            /\ runs' = [t \in {TaskId(r, s, j) : r \in 1..c.rounds, s \in 1..c.S, j \in 1..c.per} |-> 0]
            /\ fin' = {} /\ h' = <<>>
Accept == Loaded /\ l > Len(H) /\ main.pc = "done" /\ PrintT(<<"TRACE-OK", Trace[i].scn>>) /\ Fresh
Skip == More /\ Fresh
TNext == Observable \/ Silent \/ Accept \/ Skip
TSpec == TInit /\ [][TNext]_tvars
=============================================================================
