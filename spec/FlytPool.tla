------------------------------ MODULE FlytPool ------------------------------
(***************************************************************************)
(* Operational specification of flyt.WorkerPool (flyt.go:935-1013):        *)
(*   NewWorkerPool(n)  n <= 0 means one worker; queue capacity 2*workers   *)
(*   Submit(task)      wg.Add(1); then a send that BLOCKS while the queue  *)
(*                     is full; the task is wrapped so that wg.Done() runs *)
(*                     when it returns                                     *)
(*   worker()          loop: select { task from queue -> run it ; done ->  *)
(*                     return }                                            *)
(*   Wait()            wg.Wait()                                           *)
(*   Close()           close(done); close(tasks)                           *)
(*                                                                         *)
(* Clients: S submitter goroutines issue their tasks in rounds; the main   *)
(* goroutine joins the submitters of a round, calls Wait, checks the       *)
(* tasks' effects, and after the last round calls Close.                   *)
(***************************************************************************)
EXTENDS Integers, Sequences, FiniteSets, TLC

VARIABLES
  cfg,     \* [W: requested workers, S: submitters, per: tasks per submitter per round, rounds, gated]
  sub,     \* sub[s] = [pc: "idle"|"send"|"joined", next: index of the next task of this round, task]
  queue,   \* buffered channel `tasks`
  wg,      \* WaitGroup counter
  wk,      \* wk[w] = [st: "idle"|"run"|"exited", task]
  closed,  \* Close was called
  main,    \* [pc, round]
  runs,    \* runs[t]: how often task t was executed
  fin,     \* set of finished tasks
  h        \* history of observable events

vars == <<cfg, sub, queue, wg, wk, closed, main, runs, fin, h>>

NW      == IF cfg.W <= 0 THEN 1 ELSE cfg.W       \* NewWorkerPool: <= 0 means 1
Early   == "early" \in DOMAIN cfg /\ cfg.early    \* scenario with a Close that is not preceded by Wait
SelfWait == "selfwait" \in DOMAIN cfg /\ cfg.selfwait   \* every submitter calls Wait itself after its submissions
\* queue capacity: 2 * workers (flyt.go:959); a recorded scenario carries the capacity read off the real pool
Cap     == IF "qcap" \in DOMAIN cfg /\ cfg.qcap >= 1 THEN cfg.qcap ELSE 2 * NW
Workers == 1..NW
Subs    == 1..cfg.S
\* task ids: round r, submitter s, j-th task  ->  1000000*r + 10000*s + j
TaskId(r, s, j) == 1000000 * r + 10000 * s + j
AllTasks == {TaskId(r, s, j) : r \in 1..cfg.rounds, s \in Subs, j \in 1..cfg.per}

InitWith(c) ==
  /\ cfg = c
  /\ sub = [s \in 1..c.S |-> [pc |-> "idle", next |-> 1, task |-> 0]]
  /\ queue = <<>>
  /\ wg = 0
  /\ wk = [w \in 1..(IF c.W <= 0 THEN 1 ELSE c.W) |-> [st |-> "idle", task |-> 0]]
  /\ closed = FALSE
  /\ main = [pc |-> "submitting", round |-> 1]
  /\ runs = [t \in {TaskId(r, s, j) : r \in 1..c.rounds, s \in 1..c.S, j \in 1..c.per} |-> 0]
  /\ fin = {}
  /\ h = <<>>

Running == {w \in Workers : wk[w].st \in {"picked", "run"}}
\* nothing can happen except a (gated) submitter step or a (gated) task end
Quiescent ==
  /\ ~(queue # <<>> /\ \E w \in Workers : wk[w].st = "idle")
  /\ \A w \in Workers : wk[w].st # "picked"
  /\ \A s \in Subs : sub[s].pc # "sent" /\ (sub[s].pc = "send" => Len(queue) >= Cap)
GateOpen == ~cfg.gated \/ Quiescent

\* Submit, first half: wg.Add(1) (flyt.go:993)
SubmitCall(s) ==
  /\ main.pc = "submitting" /\ sub[s].pc = "idle" /\ sub[s].next <= cfg.per
  /\ GateOpen
  /\ LET t == TaskId(main.round, s, sub[s].next) IN
       /\ sub' = [sub EXCEPT ![s] = [pc |-> "send", next |-> @.next, task |-> t]]
       /\ h' = Append(h, [ev |-> "submit", task |-> t, sub |-> s])
  /\ wg' = wg + 1
  /\ UNCHANGED <<cfg, queue, wk, closed, main, runs, fin>>

\* Submit, second half: the send; blocks while the queue is full (flyt.go:994)
SubmitSend(s) ==
  /\ sub[s].pc = "send" /\ Len(queue) < Cap
  /\ queue' = Append(queue, sub[s].task)
  /\ sub' = [sub EXCEPT ![s].pc = "sent"]
  /\ UNCHANGED <<cfg, wg, wk, closed, main, runs, fin, h>>

\* Submit returns to its caller (a worker may already have picked the task up by then)
SubmitReturn(s) ==
  /\ sub[s].pc = "sent"
  /\ h' = Append(h, [ev |-> "submitret", task |-> sub[s].task, sub |-> s])
  /\ sub' = [sub EXCEPT ![s] = [pc |-> "idle", next |-> @.next + 1, task |-> 0]]
  /\ UNCHANGED <<cfg, queue, wg, wk, closed, main, runs, fin>>

\* a worker receives a task from the channel (flyt.go:975-979) ...
Pickup(w) ==
  /\ wk[w].st = "idle" /\ queue # <<>>
  /\ wk' = [wk EXCEPT ![w] = [st |-> "picked", task |-> Head(queue)]]
  /\ queue' = Tail(queue)
  /\ UNCHANGED <<cfg, sub, wg, closed, main, runs, fin, h>>
\* ... and calls it: the task body begins
TaskStart(w) ==
  /\ wk[w].st = "picked"
  /\ wk' = [wk EXCEPT ![w].st = "run"]
  /\ h' = Append(h, [ev |-> "taskstart", task |-> wk[w].task, gid |-> w])
  /\ UNCHANGED <<cfg, sub, queue, wg, closed, main, runs, fin>>

\* the task returns; the deferred wg.Done() runs
TaskEnd(w) ==
  /\ wk[w].st = "run"
  /\ GateOpen
  /\ h' = Append(h, [ev |-> "taskend", task |-> wk[w].task, gid |-> w])
  /\ runs' = [runs EXCEPT ![wk[w].task] = @ + 1]
  /\ fin' = fin \cup {wk[w].task}
  /\ wg' = wg - 1
  /\ wk' = [wk EXCEPT ![w] = [st |-> "idle", task |-> 0]]
  /\ UNCHANGED <<cfg, sub, queue, closed, main>>

\* a submitter that has submitted its tasks of the round calls Wait itself (several Waits may overlap) ...
SubDone(s) == sub[s].pc = (IF SelfWait THEN "waited" ELSE "idle") /\ sub[s].next > cfg.per
WaitCallS(s) ==
  /\ SelfWait /\ main.pc = "submitting" /\ sub[s].pc = "idle" /\ sub[s].next > cfg.per
  /\ sub' = [sub EXCEPT ![s].pc = "waiting"]
  /\ h' = Append(h, [ev |-> "waitcall", round |-> main.round, w |-> s])
  /\ UNCHANGED <<cfg, queue, wg, wk, closed, main, runs, fin>>
\* ... and returns when the counter is zero: then at least everything submitted before its call has finished
WaitRetS(s) ==
  /\ sub[s].pc = "waiting" /\ wg = 0
  /\ sub' = [sub EXCEPT ![s].pc = "waited"]
  /\ h' = Append(h, [ev |-> "waitret", round |-> main.round, w |-> s])
  /\ UNCHANGED <<cfg, queue, wg, wk, closed, main, runs, fin>>

\* the main goroutine joins the submitters of the round, then calls Wait
WaitCall ==
  /\ main.pc = "submitting" /\ ~(Early /\ main.round = cfg.rounds)
  /\ \A s \in Subs : SubDone(s)
  /\ main' = [main EXCEPT !.pc = "waiting"]
  /\ h' = Append(h, [ev |-> "waitcall", round |-> main.round])
  /\ UNCHANGED <<cfg, sub, queue, wg, wk, closed, runs, fin>>

\* Wait returns when the counter is zero; the waiter then reads the tasks' plain writes
WaitRet ==
  /\ main.pc = "waiting" /\ wg = 0
  /\ h' = Append(h, [ev |-> "waitret", round |-> main.round, seen |-> Cardinality(fin), submitted |-> main.round * cfg.S * cfg.per])
  /\ IF main.round < cfg.rounds
       THEN /\ main' = [pc |-> "submitting", round |-> main.round + 1]
            /\ sub' = [s \in Subs |-> [pc |-> "idle", next |-> 1, task |-> 0]]
       ELSE /\ main' = [main EXCEPT !.pc = "closing"]
            /\ sub' = sub
  /\ UNCHANGED <<cfg, queue, wg, wk, closed, runs, fin>>

\* Close WITHOUT a preceding Wait (outside what C12 promises, modelled because the code allows it): queued tasks may
\* still be picked up by workers that have not yet looked at `done`, or be left behind for good (EarlyCloseLosesNothing
\* is violated - a negative control of the self-test); nothing runs twice and every worker still terminates.
\* (two steps: workers keep starting and finishing tasks between the call and the return of Close)
CloseEarlyCall ==
  /\ Early /\ main.pc = "submitting" /\ main.round = cfg.rounds
  /\ \A s \in Subs : sub[s].pc = "idle" /\ sub[s].next > cfg.per
  /\ closed' = TRUE
  /\ main' = [main EXCEPT !.pc = "earlyclosing"]
  /\ h' = Append(h, [ev |-> "closecall"])
  /\ UNCHANGED <<cfg, sub, queue, wg, wk, runs, fin>>
CloseEarlyRet ==
  /\ main.pc = "earlyclosing"
  /\ main' = [main EXCEPT !.pc = "closed"]
  /\ h' = Append(h, [ev |-> "closeret"])
  /\ UNCHANGED <<cfg, sub, queue, wg, wk, closed, runs, fin>>
CloseEarly == CloseEarlyCall \/ CloseEarlyRet

\* Close: close(done); close(tasks)
Close ==
  /\ main.pc = "closing"
  /\ closed' = TRUE
  /\ main' = [main EXCEPT !.pc = "closed"]
  /\ h' = h \o <<[ev |-> "closecall"], [ev |-> "closeret"]>>
  /\ UNCHANGED <<cfg, sub, queue, wg, wk, runs, fin>>

\* a worker observes the closed channels and returns
Exit(w) ==
  /\ closed /\ wk[w].st = "idle"
  /\ wk' = [wk EXCEPT ![w] = [st |-> "exited", task |-> 0]]
  /\ UNCHANGED <<cfg, sub, queue, wg, closed, main, runs, fin, h>>

\* the harness looks for surviving pool goroutines
LeakProbe ==
  /\ main.pc = "closed"
  /\ \A w \in Workers : wk[w].st = "exited"
  /\ main' = [main EXCEPT !.pc = "done"]
  /\ h' = Append(h, [ev |-> "leak", n |-> 0])
  /\ UNCHANGED <<cfg, sub, queue, wg, wk, closed, runs, fin>>

Next ==
  \/ \E s \in Subs : SubmitCall(s) \/ SubmitSend(s) \/ SubmitReturn(s) \/ WaitCallS(s) \/ WaitRetS(s)
  \/ \E w \in Workers : Pickup(w) \/ TaskStart(w) \/ TaskEnd(w) \/ Exit(w)
  \/ WaitCall \/ WaitRet \/ Close \/ CloseEarly \/ LeakProbe

(* ---------------------------------------------------------------------- *)
(* design-level invariants                                                 *)
(* ---------------------------------------------------------------------- *)
TypeOK == /\ wg >= 0 /\ Len(queue) <= Cap
          /\ \A w \in Workers : wk[w].st \in {"idle", "picked", "run", "exited"}
\* every task at most once, ever
AtMostOnce == \A t \in DOMAIN runs : runs[t] <= 1
\* the WaitGroup counts exactly: tasks added but not yet sent + queued + running
WgExact == wg = Cardinality({s \in Subs : sub[s].pc = "send"}) + Len(queue) + Cardinality(Running)
\* never more than NW tasks at once
PoolBound == Cardinality(Running) <= NW
\* Wait is a barrier: when it has returned, everything submitted before is finished
WaitBarrier == (~Early /\ main.pc \in {"closing", "closed", "done"}) => \A t \in DOMAIN runs : runs[t] = 1
\* a submitter whose own Wait has returned finds its own tasks of the round finished
SelfWaitBarrier == \A s \in Subs : sub[s].pc = "waited" =>
                      \A j \in 1..cfg.per : runs[TaskId(main.round, s, j)] = 1
\* ... also between rounds
RoundBarrier == main.pc = "submitting" => \A t \in DOMAIN runs : t < 1000000 * main.round => runs[t] = 1
\* nothing is dropped: at the end every task ran exactly once
ExactlyOnceAtEnd == (~Early /\ main.pc = "done") => \A t \in DOMAIN runs : runs[t] = 1
\* NOT an invariant (negative control): a Close without Wait can leave queued tasks behind
EarlyCloseLosesNothing == (Early /\ main.pc = "done") => \A t \in DOMAIN runs : runs[t] = 1
\* what does hold after an early Close: the tasks left behind are exactly those still queued
EarlyCloseAccounting == (Early /\ main.pc = "done") => {t \in DOMAIN runs : runs[t] = 0} = {queue[k] : k \in 1..Len(queue)}
=============================================================================
