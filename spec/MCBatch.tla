------------------------------ MODULE MCBatch ------------------------------
(***************************************************************************)
(* Bounded model-checking front-end for FlytBatch: configuration families, *)
(* the PropsBatch predicates as invariants at terminal states, and export  *)
(* of complete behaviours as scenarios for the Go harness.                 *)
(***************************************************************************)
EXTENDS FlytBatch, Json

CONSTANTS Family, MaxItems, MaxC, MaxN, DoExport

P == INSTANCE PropsBatch

Base == [n |-> 1, c |-> 0, stopmode |-> FALSE, N |-> 1, w |-> 0, fb |-> FALSE, ctx0 |-> FALSE, cancel |-> FALSE,
         outs |-> {"ok", "err"}, acts |-> {1}, preperr |-> FALSE, posterr |-> FALSE, gated |-> FALSE, strict |-> FALSE, after |-> FALSE]

\* sequential batches: every size, budget, mode, fallback; prep/post failures; empty action
\* (after: the node object runs once more afterwards and the caller looks at the lists post was handed again)
SeqCfgs == {[Base EXCEPT !.n = n, !.N = k, !.stopmode = s, !.fb = f, !.acts = {0, 1, 2}, !.preperr = TRUE, !.posterr = TRUE, !.after = a] :
              n \in 0..MaxItems, k \in 1..MaxN, s \in BOOLEAN, f \in BOOLEAN, a \in BOOLEAN}
\* concurrent batches, every interleaving of the internal steps (design-level check)
ConcCfgs == {[Base EXCEPT !.n = n, !.c = c, !.N = k, !.stopmode = s, !.fb = f] :
              n \in 1..MaxItems, c \in 1..MaxC, k \in 1..MaxN, s \in BOOLEAN, f \in {FALSE}}
\* the same with callbacks returning only at quiescence: the schedules the harness can realise by gating
GatedCfgs == {[Base EXCEPT !.n = n, !.c = c, !.N = k, !.stopmode = s, !.fb = f, !.gated = TRUE, !.strict = TRUE] :
              n \in 1..MaxItems, c \in 1..MaxC, k \in 1..MaxN, s \in BOOLEAN, f \in BOOLEAN}
\* cancellation from inside any exec / fallback, or before the run
CancelCfgs == {[Base EXCEPT !.n = n, !.c = c, !.N = k, !.stopmode = s, !.cancel = TRUE, !.ctx0 = c0] :
              n \in 1..MaxItems, c \in 0..MaxC, k \in 1..MaxN, s \in BOOLEAN, c0 \in BOOLEAN}
GatedCancelCfgs == {[x EXCEPT !.gated = TRUE] : x \in CancelCfgs}
\* retry waits (the wait is an internal step that a cancellation interrupts)
WaitCfgs == {[Base EXCEPT !.n = n, !.c = c, !.N = 2, !.w = 1, !.cancel = TRUE, !.gated = TRUE, !.outs = {"err"}] :
              n \in 1..MaxItems, c \in 0..MaxC}
\* exec functions that return an error Result with a nil error
EresCfgs == {[Base EXCEPT !.n = n, !.c = c, !.N = 2, !.stopmode = s, !.outs = {"ok", "err", "eres", "nil"}, !.gated = TRUE] :
              n \in 1..MaxItems, c \in 0..MaxC, s \in BOOLEAN}
\* the empty batch
EmptyCfgs == {[Base EXCEPT !.n = 0, !.c = c, !.acts = {0, 1, 2}, !.posterr = TRUE] : c \in 0..MaxC}

Cfgs == CASE Family = "seq"         -> SeqCfgs
          [] Family = "conc"        -> ConcCfgs
          [] Family = "gated"       -> GatedCfgs
          [] Family = "cancel"      -> CancelCfgs
          [] Family = "gatedcancel" -> GatedCancelCfgs
          [] Family = "wait"        -> WaitCfgs
          [] Family = "empty"       -> EmptyCfgs
          [] Family = "eres"        -> EresCfgs

MCInit == \E c \in Cfgs : InitWith(c)
MCSpec == MCInit /\ [][Next]_vars
\* every batch terminates: under weak fairness of the whole next-state relation the run returns
MCLive == MCInit /\ [][Next]_vars /\ WF_vars(Next)
Terminates == <>(main.pc = "done")

Terminal == main.pc = "done" /\ ~ENABLED LookAgain
D == P!Digest(cfg, h)
InvC06 == Terminal => P!All(P!C06_Clauses(cfg, D))
InvC07 == Terminal => P!All(P!C07_Clauses(cfg, D))
InvC02 == Terminal => P!All(P!C02B_Clauses(cfg, D))
InvC08 == Terminal => P!All(P!C08_Clauses(cfg, D))
InvC09 == Terminal => P!All(P!C09_Clauses(cfg, D))
InvC11 == Terminal => P!All(P!C11_Clauses(cfg, D))
InvC18 == Terminal => P!All(P!C18B_Clauses(cfg, D))
InvC04 == Terminal => P!All(P!C04B_Clauses(cfg, D))
InvC17 == Terminal => P!All(P!C17B_Clauses(cfg, D))
\* no deadlock: the only state without successor is the terminal one
NoDeadlock == Terminal \/ ENABLED Next

Export == (DoExport /\ Terminal) => PrintT("SCN " \o ToJson([cfg |-> cfg, h |-> h]))
=============================================================================
