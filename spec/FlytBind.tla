------------------------------ MODULE FlytBind ------------------------------
(***************************************************************************)
(* C16: Result.Bind (result.go:294-324) and SharedStore.Bind               *)
(* (flyt.go:380-411) as a decision table over                              *)
(*   carrier x key present x value nil x destination class x outcome of    *)
(*   the encoding/json reference                                           *)
(* The expected path is err / copy / json; Bind never panics and never     *)
(* modifies the stored value; the two carriers agree on every non-nil      *)
(* value.                                                                  *)
(***************************************************************************)
EXTENDS Integers, Sequences, FiniteSets, TLC

Carriers == {"result", "store"}
Dests    == {"niliface", "nonptr", "nilptr", "ptrsame", "ptrother"}
Refs     == {"marshalerr", "unmarshalerr", "ok"}     \* what json.Marshal + json.Unmarshal into a fresh destination give

Cells == {c \in [carrier : Carriers, present : BOOLEAN, nilval : BOOLEAN, dest : Dests, ref : Refs] :
            /\ (c.carrier = "result" => c.present)              \* a Result always "has" its value
            /\ (c.nilval => c.dest # "ptrsame")                 \* nil has no type to match
            /\ (c.nilval => c.ref = "ok")                       \* "null" decodes into anything
            /\ (~c.present => c.nilval = FALSE)}

\* expected path of a cell
Path(c) ==
  IF ~c.present THEN "err"                                       \* missing key
  ELSE IF c.carrier = "result" /\ c.nilval THEN "err"            \* nil Result value
  ELSE IF c.dest \in {"niliface", "nonptr", "nilptr"} THEN "err" \* destination must be a non-nil pointer
  ELSE IF c.dest = "ptrsame" THEN "copy"                         \* identity for the value's own type
  ELSE IF c.ref = "ok" THEN "json" ELSE "err"                    \* exactly what JSON encode + decode gives

TableConsistent ==
  \* the two carriers agree on every non-nil value
  /\ \A c \in Cells : (c.present /\ ~c.nilval) =>
        \A c2 \in Cells : (c2.present /\ ~c2.nilval /\ c2.dest = c.dest /\ c2.ref = c.ref) => Path(c2) = Path(c)
  \* a stored nil goes down the JSON path (the destination is left as "null" leaves it), a nil Result is an error
  /\ \A c \in Cells : (c.carrier = "store" /\ c.present /\ c.nilval /\ c.dest = "ptrother") => Path(c) = "json"

\* verdict on the facts the harness logged for one Bind call:
\*   e = [carrier, present, nilval, dest, ref, panicked, iserr, desteq, copyeq, srcsame]
CallOK(e) ==
  LET p == Path(e) IN
  /\ ~e.panicked
  /\ e.srcsame
  /\ e.partialeq          \* a decode that fails part-way leaves what encoding/json leaves in the destination
  /\ CASE p = "err"  -> e.iserr
       [] p = "copy" -> ~e.iserr /\ e.copyeq
       [] p = "json" -> ~e.iserr /\ e.desteq

C16_Failing(h) ==
  LET bad == {i \in 1..Len(h) : h[i].ev = "bind" /\ ~CallOK(h[i])}
  IN {(IF h[i].panicked THEN "neverPanics"
       ELSE IF ~h[i].srcsame THEN "sourceUnchanged"
       ELSE IF ~h[i].partialeq THEN "jsonRoundTrip"
       ELSE IF Path(h[i]) = "err" THEN "errorReported"
       ELSE IF Path(h[i]) = "copy" THEN "identityForSameType"
       ELSE "jsonRoundTrip") : i \in bad}
     \cup (IF \E i \in 1..Len(h) : h[i].ev = "bindagree" /\ ~h[i].ok THEN {"carriersAgree"} ELSE {})
     \* a second Bind of the same key after the caller changed the referenced value in place (no store write in
     \* between): still the JSON round trip of the value as it is NOW
     \cup (IF \E i \in 1..Len(h) : h[i].ev = "bindalias" /\ (h[i].panicked \/ h[i].iserr # h[i].referr \/ (~h[i].referr /\ ~h[i].desteq))
           THEN {"jsonRoundTripOfCurrentValue"} ELSE {})
     \* a Bind that overlaps Set / Delete calls of the same key by another goroutine binds the value or reports the missing key -
     \* it never reports success having bound nothing (the harness counts the calls that did)
     \cup (IF \E i \in 1..Len(h) : h[i].ev = "bindrace" /\ h[i].bad > 0 THEN {"errorReportedUnderConcurrency"} ELSE {})
C16_BadCalls(h) == {<<h[i].carrier, h[i].dest, h[i].ref, h[i].val>> : i \in {j \in 1..Len(h) : h[j].ev = "bind" /\ ~CallOK(h[j])}}

VARIABLE cell
BInit == cell \in Cells
BNext == UNCHANGED cell
BSpec == BInit /\ [][BNext]_cell
=============================================================================
