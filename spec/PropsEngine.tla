----------------------------- MODULE PropsEngine -----------------------------
(***************************************************************************)
(* The engine-family properties (C01-C05, C10, C17, C18) as predicates     *)
(* over (cfg, h): a scenario configuration and a *complete* history of     *)
(* observable events of that scenario.                                     *)
(*                                                                         *)
(* The same predicates are                                                 *)
(*   - invariants of FlytEngine at terminal states (model checking), and   *)
(*   - the verdict on histories recorded from the real library.            *)
(*                                                                         *)
(* They are written against the history only - they never look at the     *)
(* operational specification's variables - so they say what the property   *)
(* says, not what the engine specification happens to do.                  *)
(*                                                                         *)
(* Every predicate is a record of named clauses (booleans), so a failing   *)
(* history is reported with the clause that failed, and a record of        *)
(* "hits" telling whether the clause's antecedent was exercised at all.    *)
(***************************************************************************)
EXTENDS Integers, Sequences, FiniteSets, TLC

NIL        == 0
DefaultAct == 1
Norm(a)    == IF a = NIL THEN DefaultAct ELSE a

Range(s)   == {s[i] : i \in 1..Len(s)}
Last(s)    == s[Len(s)]
SortedSeq(S) ==
  LET RECURSIVE F(_)
      F(T) == IF T = {} THEN <<>>
              ELSE LET m == CHOOSE x \in T : \A y \in T : x <= y
                   IN <<m>> \o F(T \ {m})
  IN F(S)
All(rec)   == \A k \in DOMAIN rec : rec[k]
Failing(rec) == {k \in DOMAIN rec : ~rec[k]}

IsCb(e)    == e.ev \in {"prep", "exec", "fb", "post"}

(* ---------------------------------------------------------------------- *)
(* cutting a history into runs and blocks                                 *)
(* (written for TLC: SelectSeq is evaluated natively, TLCEval forces a     *)
(* sequence to be built once instead of re-evaluating its body per access) *)
(* ---------------------------------------------------------------------- *)
Idx(n)      == TLCEval([i \in 1..n |-> i])
\* positions (ascending) of the elements of s satisfying Test
PosWhere(s, Test(_)) == SelectSeq(Idx(Len(s)), LAMBDA i : Test(s[i]))
Pos(h, ev)  == PosWhere(h, LAMBDA e : e.ev = ev)

\* a block: a prep event and the callback events up to the next prep
BlockStarts(cbs) == Pos(cbs, "prep")
Blocks(cbs) ==
  LET P == BlockStarts(cbs)
  IN TLCEval([i \in 1..Len(P) |->
        LET last == IF i < Len(P) THEN P[i+1] - 1 ELSE Len(cbs)
            evs  == SubSeq(cbs, P[i], last)
        IN [node  |-> evs[1].node,
            prep  |-> evs[1],
            evs   |-> evs,
            endpos|-> last,                 \* position in cbs of the block's last event
            execs |-> SelectSeq(evs, LAMBDA e : e.ev = "exec"),
            fbs   |-> SelectSeq(evs, LAMBDA e : e.ev = "fb"),
            posts |-> SelectSeq(evs, LAMBDA e : e.ev = "post")]])

\* run j of the history: its runcall, callback events, runret (if any), the Connect
\* calls made before it (all runs), and its blocks
Seg(h, calls, j) ==
  LET a     == calls[j]
      b     == IF j < Len(calls) THEN calls[j+1] - 1 ELSE Len(h)
      body  == SubSeq(h, a + 1, b)
      cbs   == SelectSeq(body, IsCb)
      canc  == PosWhere(cbs, LAMBDA e : e.cancel)
  IN [call   |-> h[a],
      cbs    |-> cbs,
      rets   |-> SelectSeq(body, LAMBDA e : e.ev = "runret"),
      \* every Connect call with the number of visits of this run that were complete when it was made: 0 for the calls made
      \* before the run; a call made from inside a callback (dynamic wiring) counts for the routing decisions after it
      conns  |-> LET pre == SelectSeq(SubSeq(h, 1, a), LAMBDA e : e.ev = "connect")
                     inpos == PosWhere(body, LAMBDA e : e.ev = "connect")
                     DoneBefore(k) == Cardinality({q \in 1..(k - 1) : body[q].ev = "post" /\ body[q].out = "ok"})
                 IN TLCEval([q \in 1..Len(pre) |-> [flow |-> pre[q].flow, from |-> pre[q].from, act |-> pre[q].act, to |-> pre[q].to, at |-> 0]])
                    \o TLCEval([q \in 1..Len(inpos) |-> [flow |-> body[inpos[q]].flow, from |-> body[inpos[q]].from, act |-> body[inpos[q]].act,
                                                          to |-> body[inpos[q]].to, at |-> DoneBefore(inpos[q])]]),
      cidx   |-> IF canc = <<>> THEN 0 ELSE canc[1],   \* first cancelling callback (0: none)
      blocks |-> Blocks(cbs)]
Segs(h)  == LET calls == Pos(h, "runcall")
            IN TLCEval([j \in 1..Len(calls) |-> Seg(h, calls, j)])

\* The store threads data between the nodes (and between the runs of one scenario, which share it): every post writes
\* a fresh token under one key, every prep reads that key.  A prep must see what the latest post before it wrote.
RECURSIVE ConcatCbs(_, _)
ConcatCbs(S, j) == IF j > Len(S) THEN <<>> ELSE S[j].cbs \o ConcatCbs(S, j + 1)
DataThreaded(S) ==
  LET all == ConcatCbs(S, 1)
      posts == PosWhere(all, LAMBDA e : e.ev = "post")
      LastBefore(i) == LET q == SelectSeq(posts, LAMBDA k : k < i) IN IF q = <<>> THEN 0 ELSE all[q[Len(q)]].wrote
  IN \A i \in 1..Len(all) : all[i].ev = "prep" => all[i].seen = LastBefore(i)

ScriptedPanic(s) == \E i \in 1..Len(s.cbs) : s.cbs[i].ev \in {"prep", "exec", "post"} /\ s.cbs[i].out = "panic"

\* callback events before the first prep of a run belong to no block
Orphans(cbs) == LET P == BlockStarts(cbs)
                IN IF P = <<>> THEN cbs ELSE SubSeq(cbs, 1, P[1] - 1)

\* prep . exec* . fb? . post?  all on one node
Shape(b) ==
  LET n == Len(b.evs)
      ix(ev) == {i \in 1..n : b.evs[i].ev = ev}
  IN /\ \A i \in 1..n : b.evs[i].node = b.node
     /\ Cardinality(ix("fb")) <= 1 /\ Cardinality(ix("post")) <= 1
     /\ \A i \in ix("exec") : \A j \in ix("fb") \cup ix("post") : i < j
     /\ \A i \in ix("fb") : \A j \in ix("post") : i < j

ExecOk(e)      == e.out \in {"ok", "eres"}          \* the Go error was nil
AllFailed(b)   == \A i \in 1..Len(b.execs) : b.execs[i].out = "err"
\* did the exec phase (an attempt or the fallback) produce a result without error?
PhaseOk(b)     == IF b.fbs # <<>> THEN b.fbs[1].out = "ok"
                  ELSE b.execs # <<>> /\ ExecOk(Last(b.execs))
\* the value token the exec phase produced (only meaningful when PhaseOk)
PhaseVal(b)    == IF b.fbs # <<>> THEN b.fbs[1].val ELSE Last(b.execs).val
\* a block that ended its run with a callback error
Failed(b)      == \/ b.prep.out = "err"
                  \/ b.posts # <<>> /\ b.posts[1].out = "err"
                  \/ b.fbs # <<>> /\ b.fbs[1].out = "err"
                  \/ b.fbs = <<>> /\ b.execs # <<>> /\ Last(b.execs).out = "err" /\ b.posts = <<>>
\* the same for a batch node used as a flow step: an item's error stays in its slot, only prep and post errors end the run
FailedB(b)     == b.prep.out = "err" \/ (b.posts # <<>> /\ b.posts[1].out = "err")
\* token of the error that ended a failed block
FailTok(b)     == IF b.prep.out = "err" THEN b.prep.err
                  ELSE IF b.posts # <<>> /\ b.posts[1].out = "err" THEN b.posts[1].err
                  ELSE IF b.fbs # <<>> THEN b.fbs[1].err
                  ELSE Last(b.execs).err

Cancelled(s)   == s.call.ctxdone \/ s.cidx # 0
CancelIdx(s)   == s.cidx
\* was the context already cancelled when event number i of the run was produced?
CancelledBefore(s, i) == s.call.ctxdone \/ (s.cidx # 0 /\ s.cidx < i)
\* ... or by that event itself
CancelledBy(s, i)     == s.call.ctxdone \/ (s.cidx # 0 /\ s.cidx <= i)
\* position in s.cbs of the last event of block number bi
BlockEnd(s, bi) == s.blocks[bi].endpos

NodeOf(cfg, n) == cfg.nodes[n]
BudgetOf(cfg, n) == IF NodeOf(cfg, n).retry THEN NodeOf(cfg, n).N ELSE 1

HasRet(s)  == Len(s.rets) = 1
RetOf(s)   == s.rets[1]

(* ---------------------------------------------------------------------- *)
(* the path a (hierarchical) flow must take, replayed from the recorded    *)
(* returned actions - independent of the engine specification              *)
(*                                                                         *)
(* Walk(n, acts): run node n, consuming one recorded action per leaf       *)
(* visit.  Result: visits (leaves in order), rest (unconsumed actions),    *)
(* act (action presented to the parent), cut (the recorded actions ran     *)
(* out inside this node: the run ended there).                             *)
(* ---------------------------------------------------------------------- *)
\* the transition table is the history of Connect calls: the last Connect of a
\* (flow, node, action) triple wins; a nil target (0) is an entry
\* (k: the number of visits complete at the moment of the lookup; only Connect calls made before that moment count)
Entries(conns, f, n, a, k) == SelectSeq(conns, LAMBDA c : c.flow = f /\ c.from = n /\ c.act = a /\ c.at < k)
HasEntry(conns, f, n, a, k) == Entries(conns, f, n, a, k) # <<>>
Target(conns, f, n, a, k)   == LET m == Entries(conns, f, n, a, k) IN m[Len(m)].to

RECURSIVE Walk(_, _, _, _)
RECURSIVE WalkFlow(_, _, _, _, _, _, _)
Walk(cfg, tbl, n, acts) ==
  IF NodeOf(cfg, n).kind # "flow"
  THEN IF acts = <<>>
       THEN [visits |-> <<n>>, rest |-> <<>>, act |-> NIL, cut |-> TRUE, nostart |-> FALSE]
       ELSE [visits |-> <<n>>, rest |-> Tail(acts), act |-> Head(acts), cut |-> FALSE, nostart |-> FALSE]
  ELSE IF NodeOf(cfg, n).start = NIL
       THEN \* a flow without a start node fails without visiting anything: the run ends here
            [visits |-> <<>>, rest |-> acts, act |-> NIL, cut |-> TRUE, nostart |-> TRUE]
       ELSE WalkFlow(cfg, tbl, n, NodeOf(cfg, n).start, acts, <<>>, NIL)
\* the loop of a flow f standing at node cur, having visited `seen`, last action `last`
WalkFlow(cfg, tbl, f, cur, acts, seen, last) ==
  IF cur = NIL
  THEN [visits |-> seen, rest |-> acts, act |-> Norm(last), cut |-> FALSE, nostart |-> FALSE]
  ELSE LET r == Walk(cfg, tbl, cur, acts)
       IN IF r.cut
          THEN [visits |-> seen \o r.visits, rest |-> r.rest, act |-> NIL, cut |-> TRUE, nostart |-> r.nostart]
          ELSE IF HasEntry(tbl.conns, f, cur, r.act, tbl.tot - Len(r.rest))
               THEN WalkFlow(cfg, tbl, f, Target(tbl.conns, f, cur, r.act, tbl.tot - Len(r.rest)), r.rest, seen \o r.visits, r.act)
               ELSE [visits |-> seen \o r.visits, rest |-> r.rest, act |-> r.act, cut |-> FALSE, nostart |-> FALSE]

\* what the run recorded: visited leaves, and the normalised action of every completed visit
Visits(s)      == LET B == s.blocks IN TLCEval([i \in 1..Len(B) |-> B[i].node])
ReturnedActs(s) ==
  LET B == s.blocks
      done == SelectSeq(B, LAMBDA b : b.posts # <<>> /\ b.posts[1].out = "ok")
  IN TLCEval([i \in 1..Len(done) |-> Norm(done[i].posts[1].act)])
\* a visit completes iff its post succeeded; only the last block may be incomplete
OnlyLastIncomplete(s) ==
  LET B == s.blocks
  IN \A i \in 1..(Len(B) - 1) : B[i].posts # <<>> /\ B[i].posts[1].out = "ok"

\* the table as the interpreters need it: all Connect calls of the run with their timestamps, and the number of recorded actions
Tbl(s) == [conns |-> s.conns, tot |-> Len(ReturnedActs(s))]
Expected(cfg, s) == Walk(cfg, Tbl(s), s.call.node, ReturnedActs(s))

\* the routing equation: visited leaves = the path determined by table and actions
PathHolds(cfg, s) ==
  LET x == Expected(cfg, s)
      v == Visits(s)
  IN /\ OnlyLastIncomplete(s)
     /\ HasRet(s)
     /\ IF ~RetOf(s).iserr
        THEN ~x.cut /\ x.rest = <<>> /\ v = x.visits /\ RetOf(s).act = x.act
        ELSE \* the run ended early: at the leaf where the recorded actions ran out (that leaf was visited and failed),
             \* or - only if the context was cancelled - before reaching it
             /\ x.rest = <<>>
             /\ \/ v = x.visits
                \/ x.cut /\ ~x.nostart /\ (s.call.ctxdone \/ s.cidx # 0) /\ v = SubSeq(x.visits, 1, Len(x.visits) - 1)

(* ---------------------------------------------------------------------- *)
(* Flows that have a retry budget of their own: a flow is a node, so a pass *)
(* over its nodes that fails is repeated from the start node until a pass   *)
(* succeeds or the budget is used up.  RWalk interprets the recorded        *)
(* sequence of visits (each complete with an action, or failed) that way;   *)
(* it must consume exactly the recorded visits and end like the run ended.  *)
(* ---------------------------------------------------------------------- *)
BlockStat(cfg, s) ==
  LET B == s.blocks
  IN TLCEval([i \in 1..Len(B) |->
        LET ok == B[i].posts # <<>> /\ B[i].posts[1].out = "ok"
        IN [node |-> B[i].node, ok |-> ok, act |-> IF ok THEN Norm(B[i].posts[1].act) ELSE NIL]])

RECURSIVE RWalk(_, _, _, _)
RECURSIVE RTry(_, _, _, _, _)
RECURSIVE RBody(_, _, _, _, _, _)
RWalk(cfg, conns, n, bs) ==
  IF NodeOf(cfg, n).kind # "flow"
  THEN IF bs = <<>> THEN [st |-> "cut", rest |-> <<>>, act |-> NIL]
       ELSE IF Head(bs).node # n THEN [st |-> "bad", rest |-> bs, act |-> NIL]
       ELSE IF Head(bs).ok THEN [st |-> "ok", rest |-> Tail(bs), act |-> Head(bs).act]
       ELSE [st |-> "fail", rest |-> Tail(bs), act |-> NIL]
  ELSE RTry(cfg, conns, n, bs, 1)
\* attempt k of flow f
RTry(cfg, conns, f, bs, k) ==
  LET r == IF NodeOf(cfg, f).start = NIL THEN [st |-> "fail", rest |-> bs, act |-> NIL]      \* "no start node configured"
           ELSE RBody(cfg, conns, f, NodeOf(cfg, f).start, bs, NIL)
  IN IF r.st = "fail" /\ k < BudgetOf(cfg, f) THEN RTry(cfg, conns, f, r.rest, k + 1) ELSE r
\* one pass: flow f standing at node cur, last action `last`
RBody(cfg, conns, f, cur, bs, last) ==
  IF cur = NIL THEN [st |-> "ok", rest |-> bs, act |-> Norm(last)]
  ELSE LET r == RWalk(cfg, conns, cur, bs)
       IN IF r.st # "ok" THEN r
          ELSE IF HasEntry(conns, f, cur, r.act, 1000000)
               THEN RBody(cfg, conns, f, Target(conns, f, cur, r.act, 1000000), r.rest, r.act)
               ELSE [st |-> "ok", rest |-> r.rest, act |-> r.act]

RetriedPathHolds(cfg, s) ==
  \E r \in {RWalk(cfg, s.conns, s.call.node, BlockStat(cfg, s))} :
     /\ HasRet(s) /\ r.rest = <<>>
     /\ \/ r.st = "ok" /\ ~RetOf(s).iserr /\ RetOf(s).act = r.act
        \/ r.st = "fail" /\ RetOf(s).iserr

(* ---------------------------------------------------------------------- *)
(* the equivalent FLATTENED state machine of a hierarchy of flows (C10):    *)
(* a state is (stack of enclosing flows, leaf); one step = the leaf returns *)
(* an action, flows that end present their last action one level up.       *)
(* An independent, non-recursive-descent formulation of what a nested      *)
(* arrangement must do; TLC checks FlatWalk = Walk on every behaviour of   *)
(* the nested model-checking families and on every recorded history.       *)
(* ---------------------------------------------------------------------- *)
Front(s) == SubSeq(s, 1, Len(s) - 1)

\* descend from node n (entered inside the flows stk) to the first leaf
RECURSIVE Enter(_, _, _)
Enter(cfg, stk, n) ==
  IF NodeOf(cfg, n).kind # "flow" THEN [ok |-> TRUE, stk |-> stk, leaf |-> n]
  ELSE IF NodeOf(cfg, n).start = NIL THEN [ok |-> FALSE, stk |-> stk, leaf |-> NIL]
  ELSE Enter(cfg, Append(stk, n), NodeOf(cfg, n).start)

\* node n, run inside the flows stk, has finished with action a: the next flat state, or the end
RECURSIVE Leave(_, _, _, _, _, _)
Leave(cfg, tbl, stk, n, a, k) ==
  IF stk = <<>> THEN [end |-> TRUE, ok |-> TRUE, act |-> a, stk |-> <<>>, leaf |-> NIL]
  ELSE LET f == Last(stk) IN
       IF HasEntry(tbl.conns, f, n, a, k) /\ Target(tbl.conns, f, n, a, k) # NIL
       THEN LET e == Enter(cfg, stk, Target(tbl.conns, f, n, a, k))
            IN [end |-> ~e.ok, ok |-> e.ok, act |-> NIL, stk |-> e.stk, leaf |-> e.leaf]
       ELSE Leave(cfg, tbl, Front(stk), f, a, k)      \* flow f ends and presents its last action

RECURSIVE FlatSteps(_, _, _, _, _, _)
FlatSteps(cfg, tbl, stk, leaf, acts, seen) ==
  IF acts = <<>> THEN [visits |-> Append(seen, leaf), rest |-> <<>>, act |-> NIL, cut |-> TRUE, nostart |-> FALSE]
  ELSE LET nx == Leave(cfg, tbl, stk, leaf, Head(acts), tbl.tot - Len(Tail(acts))) IN
       IF nx.end
       THEN IF nx.ok THEN [visits |-> Append(seen, leaf), rest |-> Tail(acts), act |-> nx.act, cut |-> FALSE, nostart |-> FALSE]
                     ELSE [visits |-> Append(seen, leaf), rest |-> Tail(acts), act |-> NIL, cut |-> TRUE, nostart |-> TRUE]
       ELSE FlatSteps(cfg, tbl, nx.stk, nx.leaf, Tail(acts), Append(seen, leaf))

FlatWalk(cfg, tbl, top, acts) ==
  LET e == Enter(cfg, <<>>, top) IN
  IF ~e.ok THEN [visits |-> <<>>, rest |-> acts, act |-> NIL, cut |-> TRUE, nostart |-> TRUE]
  ELSE FlatSteps(cfg, tbl, e.stk, e.leaf, acts, <<>>)

\* the hierarchical interpreter and the flattened machine agree on this run's recorded actions
FlatAgrees(cfg, s) ==
  \E x \in {Walk(cfg, Tbl(s), s.call.node, ReturnedActs(s))} : \E y \in {FlatWalk(cfg, Tbl(s), s.call.node, ReturnedActs(s))} :
     x.visits = y.visits /\ x.rest = y.rest /\ x.cut = y.cut /\ x.nostart = y.nostart /\ (~x.cut => x.act = y.act)

(* ---------------------------------------------------------------------- *)
(* C01  node lifecycle                                                     *)
(* ---------------------------------------------------------------------- *)
C01_Clauses(cfg, S) ==
  LET Dummy == 0
      BlocksOf(j) == S[j].blocks
      \* the lifecycle / budget rules are those of ordinary nodes; batch nodes used as flow steps have their own (C06..)
      ForAllBlocks(P(_, _, _)) == \A j \in 1..Len(S) : \A i \in 1..Len(BlocksOf(j)) :
                                      NodeOf(cfg, BlocksOf(j)[i].node).kind = "leaf" => P(S[j], i, BlocksOf(j)[i])
  IN [
   \* every callback belongs to a block prep.exec*.fb?.post? of one node: prep exactly once,
   \* then only exec attempts (and the fallback), then post at most once
   shape       |-> /\ \A j \in 1..Len(S) : Orphans(S[j].cbs) = <<>>
                   /\ ForAllBlocks(LAMBDA s, i, b : Shape(b)),
   prepStore   |-> ForAllBlocks(LAMBDA s, i, b : b.prep.sok) /\ DataThreaded(S),
   prepErrEnds |-> ForAllBlocks(LAMBDA s, i, b : b.prep.out = "err" => Len(b.evs) = 1),
   \* each exec attempt receives exactly the value prep returned
   execArg     |-> ForAllBlocks(LAMBDA s, i, b :
                     \A k \in 1..Len(b.execs) : b.execs[k].arg = b.prep.val /\ b.execs[k].aid /\ b.execs[k].aw = "raw"),
   \* post runs only if the exec phase produced a result without error ...
   postOnlyIf  |-> ForAllBlocks(LAMBDA s, i, b : b.posts # <<>> => PhaseOk(b)),
   \* ... and always then - also when the context was cancelled meanwhile: post is neither a new attempt
   \* nor a new node, and no other property allows skipping it after a result was produced
   postIf      |-> ForAllBlocks(LAMBDA s, i, b : PhaseOk(b) => b.posts # <<>>),
   \* the fallback is part of the exec phase: a node that has one is not failed before it has been asked
   fallbackAsked |-> ForAllBlocks(LAMBDA s, i, b :
                     (NodeOf(cfg, b.node).fb /\ b.execs # <<>> /\ Len(b.execs) = BudgetOf(cfg, b.node) /\ AllFailed(b)
                        /\ ~CancelledBy(s, BlockEnd(s, i))) => b.fbs # <<>>),
   \* post receives the same store, the prep value and that result
   postArgs    |-> ForAllBlocks(LAMBDA s, i, b :
                     b.posts # <<>> =>
                       /\ b.posts[1].sok /\ b.posts[1].prep = b.prep.val /\ b.posts[1].pid
                       /\ (PhaseOk(b) /\ (b.fbs # <<>> \/ Last(b.execs).out = "ok")
                             => b.posts[1].exec = PhaseVal(b) /\ b.posts[1].eid)),
   \* exactly one of (non-empty action, error)
   \* (a run in which a callback panicked - scripted by the scenario - need not return at all)
   retXor      |-> \A j \in 1..Len(S) :
                     /\ HasRet(S[j]) \/ ScriptedPanic(S[j])
                     /\ HasRet(S[j]) => (RetOf(S[j]).iserr <=> RetOf(S[j]).act = NIL),
   \* a run of a single leaf returns post's action (default for the empty action)
   retAction   |-> \A j \in 1..Len(S) :
                     (NodeOf(cfg, S[j].call.node).kind = "leaf" /\ HasRet(S[j])) =>
                        LET B == BlocksOf(j) IN
                        /\ Len(B) <= 1
                        /\ (Len(B) = 1 /\ B[1].posts # <<>> /\ B[1].posts[1].out = "ok"
                              => ~RetOf(S[j]).iserr /\ RetOf(S[j]).act = Norm(B[1].posts[1].act))
                        /\ (Len(B) = 0 \/ B[1].posts = <<>> \/ B[1].posts[1].out = "err"
                              => RetOf(S[j]).iserr)
  ]
C01_OK(cfg, h) == All(C01_Clauses(cfg, Segs(h)))

(* ---------------------------------------------------------------------- *)
(* C02  retry budget and fallback                                         *)
(* ---------------------------------------------------------------------- *)
C02_Clauses(cfg, S) ==
  LET Dummy == 0
      BlocksOf(j) == S[j].blocks
      \* the lifecycle / budget rules are those of ordinary nodes; batch nodes used as flow steps have their own (C06..)
      ForAllBlocks(P(_, _, _)) == \A j \in 1..Len(S) : \A i \in 1..Len(BlocksOf(j)) :
                                      NodeOf(cfg, BlocksOf(j)[i].node).kind = "leaf" => P(S[j], i, BlocksOf(j)[i])
      N(b) == BudgetOf(cfg, b.node)
      m(b) == Len(b.execs)
      Fbk(b) == NodeOf(cfg, b.node).fb
      \* tokens of the errors of attempts 1..m
      AttErr(b, k) == b.execs[k].err
      \* a flow with a retry budget of its own may repeat a failed pass: only the last block's failure is the run's error
      Final(s, i) == ~cfg.flowretry \/ i = Len(s.blocks)
  IN [
   attemptNumbers |-> ForAllBlocks(LAMBDA s, i, b : \A k \in 1..m(b) : b.execs[k].k = k),
   atMostN        |-> ForAllBlocks(LAMBDA s, i, b : m(b) <= N(b)),
   stopAtSuccess  |-> ForAllBlocks(LAMBDA s, i, b : \A k \in 1..(m(b) - 1) : ~ExecOk(b.execs[k])),
   \* all N attempts are made if none succeeds (unless cancelled: then C05 applies)
   exhaustBudget  |-> ForAllBlocks(LAMBDA s, i, b :
                        (b.prep.out = "ok" /\ ~CancelledBy(s, BlockEnd(s, i)) /\ (m(b) = 0 \/ AllFailed(b))) => m(b) = N(b)),
   fbOnlyAfterN   |-> ForAllBlocks(LAMBDA s, i, b :
                        b.fbs # <<>> => Len(b.fbs) = 1 /\ Fbk(b) /\ AllFailed(b) /\ m(b) = N(b)),
   fbAlwaysAfterN |-> ForAllBlocks(LAMBDA s, i, b :
                        (Fbk(b) /\ m(b) = N(b) /\ m(b) > 0 /\ AllFailed(b) /\ ~CancelledBy(s, BlockEnd(s, i))) => Len(b.fbs) = 1),
   \* the fallback sees the prep value and the error of the last attempt (and of no earlier one)
   fbArgs         |-> ForAllBlocks(LAMBDA s, i, b :
                        b.fbs # <<>> /\ m(b) > 0 =>
                          /\ b.fbs[1].arg = b.prep.val /\ b.fbs[1].aid
                          /\ AttErr(b, m(b)) \in Range(b.fbs[1].errseen)
                          /\ \A k \in 1..(m(b) - 1) : AttErr(b, k) \notin Range(b.fbs[1].errseen)),
   \* the fallback's outcome replaces the exec outcome
   fbOutcome      |-> ForAllBlocks(LAMBDA s, i, b :
                        b.fbs # <<>> =>
                          /\ (b.fbs[1].out = "ok" /\ b.posts # <<>> => b.posts[1].exec = b.fbs[1].val)
                          /\ (b.fbs[1].out = "err" => b.posts = <<>> /\ (Final(s, i) => HasRet(s) /\ RetOf(s).iserr
                                                      /\ b.fbs[1].err \in Range(RetOf(s).errs)
                                                      \* (it replaces the attempts' errors, which are not reported next to it)
                                                      /\ \A k \in 1..m(b) : AttErr(b, k) \notin Range(RetOf(s).errs)))),
   \* a flow is a retryable node too: a failed pass over its nodes is repeated until one succeeds or the budget is used up
   flowBudget |-> cfg.flowretry => \A j \in 1..Len(S) : (~Cancelled(S[j]) => RetriedPathHolds(cfg, S[j])),
   \* without a fallback the error of the last attempt is the run's error
   lastErrReturned |-> ForAllBlocks(LAMBDA s, i, b :
                        (b.fbs = <<>> /\ m(b) > 0 /\ m(b) = N(b) /\ AllFailed(b) /\ ~Fbk(b)) =>
                          b.posts = <<>> /\ (Final(s, i) => HasRet(s) /\ RetOf(s).iserr /\ AttErr(b, m(b)) \in Range(RetOf(s).errs)))
  ]
C02_OK(cfg, h) == All(C02_Clauses(cfg, Segs(h)))

(* ---------------------------------------------------------------------- *)
(* C03  flow routing follows the transition table                         *)
(* ---------------------------------------------------------------------- *)
C03_Clauses(cfg, S) ==
  LET Dummy == 0
  IN [
   \* visited leaves = the unique path table + returned actions determine; ends exactly there;
   \* nothing off the path has an event (every event sits in the block of a visited node)
   \* (flows that have a retry budget of their own repeat a failed pass: those runs are validated against the
   \* operational specification and through the Flow.Run comparison, not by this single-pass path equation)
   path   |-> IF cfg.flowretry THEN \A j \in 1..Len(S) : (~Cancelled(S[j]) => RetriedPathHolds(cfg, S[j]))
              ELSE \A j \in 1..Len(S) : PathHolds(cfg, S[j]),
   onPath |-> \A j \in 1..Len(S) :
                 /\ Orphans(S[j].cbs) = <<>>
                 /\ \A i \in 1..Len(S[j].blocks) :
                      LET b == S[j].blocks[i] IN \A k \in 1..Len(b.evs) : b.evs[k].node = b.node
  ]
C03_OK(cfg, h) == All(C03_Clauses(cfg, Segs(h)))

(* ---------------------------------------------------------------------- *)
(* C04  errors are transparent, flows are fail-stop                       *)
(* ---------------------------------------------------------------------- *)
C04_Clauses(cfg, S) ==
  LET Dummy == 0
      B(j) == S[j].blocks
      NoCancel(j) == ~Cancelled(S[j])
      IsFailed(b) == IF NodeOf(cfg, b.node).kind = "bleaf" THEN FailedB(b) ELSE Failed(b)
      FailedIdx(j) == {i \in 1..Len(B(j)) : IsFailed(B(j)[i])}
  IN [
   \* nil error iff every phase on the path succeeded
   errIffFailed |-> \A j \in 1..Len(S) : (NoCancel(j) /\ ~cfg.nilstart /\ ~cfg.flowretry) =>
                       HasRet(S[j]) /\ (RetOf(S[j]).iserr <=> FailedIdx(j) # {}),
   \* the returned error matches the callback's error value (errors.Is / errors.As)
   \* (a flow with a retry budget of its own may recover from a failed pass; then only the failure of the last pass is returned)
   errMatches   |-> \A j \in 1..Len(S) : NoCancel(j) =>
                       IF cfg.flowretry
                       THEN HasRet(S[j]) /\ (RetOf(S[j]).iserr => (FailedIdx(j) # {} /\ LET m == CHOOSE i \in FailedIdx(j) : \A i2 \in FailedIdx(j) : i2 <= i
                                                                                         IN FailTok(B(j)[m]) \in Range(RetOf(S[j]).errs)))
                       ELSE \A i \in FailedIdx(j) : HasRet(S[j]) /\ FailTok(B(j)[i]) \in Range(RetOf(S[j]).errs),
   \* "after retries and fallback": a node that has a fallback and has used up its budget is not finished before the
   \* fallback has been asked - its answer is the outcome of the phase
   fallbackAsked |-> C02_Clauses(cfg, S).fbAlwaysAfterN,
   \* ... and "after retries" means the retries the node is entitled to: an attempt beyond the budget does not undo a failure
   withinBudget  |-> C02_Clauses(cfg, S).atMostN,
   \* after the failure no further user callback of that run
   failStop     |-> \A j \in 1..Len(S) : (NoCancel(j) /\ ~cfg.flowretry) =>
                       \A i \in FailedIdx(j) : i = Len(B(j)) /\ Last(B(j)[i].evs).out = "err"
  ]
C04_OK(cfg, h) == All(C04_Clauses(cfg, Segs(h)))

(* ---------------------------------------------------------------------- *)
(* C05  cancellation                                                      *)
(* ---------------------------------------------------------------------- *)
C05_Clauses(cfg, S) ==
  LET Dummy == 0
      B(j) == S[j].blocks
      IsFailed(b) == IF NodeOf(cfg, b.node).kind = "bleaf" THEN FailedB(b) ELSE Failed(b)
      FailedIdx(j) == {i \in 1..Len(B(j)) : IsFailed(B(j)[i])}
  IN [
   \* context already done: no callback at all, error matches the context's error (batch nodes run directly are exempt)
   doneBefore |-> \A j \in 1..Len(S) : (S[j].call.ctxdone /\ NodeOf(cfg, S[j].call.node).kind # "bleaf") =>
                     S[j].cbs = <<>> /\ HasRet(S[j]) /\ RetOf(S[j]).iserr /\ RetOf(S[j]).ctxerr,
   \* after the cancellation no new exec attempt and no new node
   noNewWork  |-> \A j \in 1..Len(S) : CancelIdx(S[j]) # 0 =>
                     \A i \in (CancelIdx(S[j]) + 1)..Len(S[j].cbs) : S[j].cbs[i].ev \notin {"exec", "prep"},
   \* a run reporting success although cancelled was not cut short: it ran its whole path
   noFakeSuccess |-> \A j \in 1..Len(S) : (Cancelled(S[j]) /\ HasRet(S[j]) /\ ~RetOf(S[j]).iserr) =>
                     /\ B(j) # <<>> /\ Last(B(j)).posts # <<>> /\ Last(B(j)).posts[1].out = "ok"
                     /\ (cfg.flowretry \/ PathHolds(cfg, S[j])),
   \* an attempt that fails after the cancellation ends the retry loop: the remaining budget is not "recovered"
   \* by the fallback (that would turn a run that was cut short into a success)
   noFallbackRecovery |-> \A j \in 1..Len(S) : CancelIdx(S[j]) # 0 =>
                     \A i \in 1..Len(B(j)) : LET b == B(j)[i] IN
                        (b.fbs # <<>> /\ NodeOf(cfg, b.node).kind = "leaf" /\ BlockEnd(S[j], i) >= CancelIdx(S[j]))
                           => Len(b.execs) = BudgetOf(cfg, b.node),
   \* a run reporting an error after a cancellation reports the context's error
   \* (or the error of the callback that ended it)
   ctxErr     |-> \A j \in 1..Len(S) : Cancelled(S[j]) =>
                     /\ HasRet(S[j])
                     /\ RetOf(S[j]).iserr =>
                          \/ RetOf(S[j]).ctxerr
                          \/ \E i \in FailedIdx(j) : FailTok(B(j)[i]) \in Range(RetOf(S[j]).errs)
  ]
C05_OK(cfg, h) == All(C05_Clauses(cfg, Segs(h)))

(* ---------------------------------------------------------------------- *)
(* C11 through a flow: batch nodes used as steps of a flow.  The batch     *)
(* level (FlytBatch / PropsBatch) decides what happens inside one batch;   *)
(* here the run as a whole: a batch node swallows the cancellation (its    *)
(* post is still called with the error slots), so it is the flow that must *)
(* end the run - also when the flow consists of batch nodes only and its   *)
(* table loops.                                                            *)
(* ---------------------------------------------------------------------- *)
C11E_Clauses(cfg, S) ==
  LET c5 == C05_Clauses(cfg, S) IN
  [ \* the run terminates (a run that had to be stopped by the harness has no return event)
    flowTerminates  |-> \A j \in 1..Len(S) : HasRet(S[j]),
    \* after the cancellation no further batch (no prep) and no further item attempt starts
    flowNoNewWork   |-> c5.noNewWork,
    \* a cancelled run returns the context's error, or ran its whole path
    flowCtxErr      |-> c5.ctxErr /\ c5.noFakeSuccess ]
C11E_OK(cfg, h) == All(C11E_Clauses(cfg, Segs(h)))

(* ---------------------------------------------------------------------- *)
(* C10  a flow used as a node                                             *)
(* ---------------------------------------------------------------------- *)
C10_Clauses(cfg, S) ==
  LET Dummy == 0
  IN [
   \* inner flows run their own path to completion and present their last action
   hpath     |-> IF cfg.flowretry THEN \A j \in 1..Len(S) : (~Cancelled(S[j]) => RetriedPathHolds(cfg, S[j]))
                 ELSE \A j \in 1..Len(S) : PathHolds(cfg, S[j]),
   \* ... which is what the equivalent flattened state machine does
   flattened |-> ~cfg.flowretry => \A j \in 1..Len(S) : FlatAgrees(cfg, S[j]),
   \* ... and under the context of the whole run: no context handed to a node dies before the run ends
   sameContext |-> \A j \in 1..Len(S) : \A i \in 1..Len(S[j].cbs) :
                     S[j].cbs[i].ev \in {"prep", "exec", "post"} => S[j].cbs[i].cok,
   \* an inner flow that ends by error ends the whole arrangement with that very error (same value outside as inside)
   innerError |-> \A j \in 1..Len(S) : (~Cancelled(S[j]) /\ HasRet(S[j]) /\ S[j].blocks # <<>> /\ ~cfg.flowretry) =>
                     LET b == Last(S[j].blocks) IN
                     (NodeOf(cfg, b.node).kind = "leaf" /\ Failed(b)) => RetOf(S[j]).iserr /\ FailTok(b) \in Range(RetOf(S[j]).errs),
   \* every leaf, at any depth, works on the store given to the top-level run
   \* (and what a node at one depth writes is what the next node, at whatever depth, reads)
   sameStore |-> /\ \A j \in 1..Len(S) : \A i \in 1..Len(S[j].cbs) :
                     S[j].cbs[i].ev \in {"prep", "post"} => S[j].cbs[i].sok
                 /\ DataThreaded(S)
  ]
C10_OK(cfg, h) == All(C10_Clauses(cfg, Segs(h)))

(* ---------------------------------------------------------------------- *)
(* C17  function-style nodes pass values between phases unchanged          *)
(* ---------------------------------------------------------------------- *)
C17_Clauses(cfg, S) ==
  LET Dummy == 0
      BlocksOf(j) == S[j].blocks
      IsFunc(b) == NodeOf(cfg, b.node).func
      Sty(b) == NodeOf(cfg, b.node).sty
      ForFuncBlocks(P(_)) == \A j \in 1..Len(S) : \A i \in 1..Len(BlocksOf(j)) :
                                IsFunc(BlocksOf(j)[i]) => P(BlocksOf(j)[i])
  IN [
   \* exec receives the prep value: same token, same object, not wrapped again
   \* (in generated scenarios the Result-style prep function of every other node hands a nil value over as an error
   \* Result, flyt.NewErrorResult(e): its value is nil, and nil is what exec receives - whether a Result-style exec is
   \* also shown the error state is left open here; a second wrapping is not)
   prepToExec |-> ForFuncBlocks(LAMBDA b : \A k \in 1..Len(b.execs) :
                     LET asEres == "genmode" \in DOMAIN cfg /\ cfg.genmode # "" /\ Sty(b)[1] = "r"
                                   /\ (b.node + cfg.variant) % 2 = 0 /\ b.prep.out = "ok" /\ b.prep.val = NIL IN
                     b.execs[k].arg = b.prep.val /\ b.execs[k].aid
                     /\ (b.execs[k].aw = "raw" \/ (asEres /\ b.execs[k].aw = "eres"))),
   \* post receives the prep value
   prepToPost |-> ForFuncBlocks(LAMBDA b : b.posts # <<>> =>
                     b.posts[1].prep = b.prep.val /\ b.posts[1].pid),
   \* post receives the exec value, never wrapped a second time and never stripped
   execToPost |-> ForFuncBlocks(LAMBDA b : (b.posts # <<>> /\ b.fbs = <<>> /\ b.execs # <<>>) =>
                     LET x == Last(b.execs) p == b.posts[1] IN
                     /\ p.ew = "raw"
                     /\ (x.out = "ok" => p.exec = x.val /\ p.eid /\ ~p.eerr)
                     \* an error result keeps its error state for a Result-style post;
                     \* an Any-style post sees the result's Value(), which is nil
                     /\ (x.out = "eres" => p.exec = NIL
                                           /\ (Sty(b)[3] = "r" => p.eerr /\ p.eerrtok = x.err)
                                           /\ (Sty(b)[3] = "a" => ~p.eerr))),
   \* the fallback's value reaches post unchanged as well
   fbToPost   |-> ForFuncBlocks(LAMBDA b : (b.posts # <<>> /\ b.fbs # <<>> /\ b.fbs[1].out = "ok") =>
                     b.posts[1].exec = b.fbs[1].val /\ b.posts[1].eid /\ b.posts[1].ew = "raw" /\ ~b.posts[1].eerr)
  ]
C17_OK(cfg, h) == All(C17_Clauses(cfg, Segs(h)))

(* ---------------------------------------------------------------------- *)
(* C18  a successful run never yields the empty action                     *)
(* ---------------------------------------------------------------------- *)
C18_Clauses(cfg, S) ==
  LET Dummy == 0
      BlocksOf(j) == S[j].blocks
  IN [
   nonEmpty  |-> \A j \in 1..Len(S) : (HasRet(S[j]) /\ ~RetOf(S[j]).iserr) => RetOf(S[j]).act # NIL,
   \* a leaf run on its own: the empty action from post is reported as the default action
   defaulted |-> \A j \in 1..Len(S) :
                   (NodeOf(cfg, S[j].call.node).kind = "leaf" /\ HasRet(S[j]) /\ ~RetOf(S[j]).iserr
                      /\ Len(BlocksOf(j)) = 1 /\ BlocksOf(j)[1].posts # <<>>) =>
                     RetOf(S[j]).act = Norm(BlocksOf(j)[1].posts[1].act),
   \* as a routed step: a connection on the default action is followed after an empty action
   \* (every run in which some node reports the empty or the default action: in flows that is where a default
   \* connection - of a leaf or of a nested flow - has to be followed)
   routed    |-> \A j \in 1..Len(S) :
                   (NodeOf(cfg, S[j].call.node).kind = "flow" /\ ~Cancelled(S[j]) /\ ~cfg.flowretry
                      /\ \E i \in 1..Len(S[j].cbs) : S[j].cbs[i].ev = "post" /\ S[j].cbs[i].out = "ok" /\ S[j].cbs[i].act \in {NIL, DefaultAct})
                   => PathHolds(cfg, S[j])
  ]
C18_OK(cfg, h) == All(C18_Clauses(cfg, Segs(h)))

(* ---------------------------------------------------------------------- *)
(* hit counters: was the interesting case of a property exercised by h?    *)
(* ---------------------------------------------------------------------- *)
EngineHits(cfg, S) ==
  LET Dummy == 0
      AllBlocks == UNION {{<<j, i>> : i \in 1..Len(S[j].blocks)} : j \in 1..Len(S)}
      Blk(p) == S[p[1]].blocks[p[2]]
  IN [
   retried    |-> \E p \in AllBlocks : Len(Blk(p).execs) > 1,
   fallback   |-> \E p \in AllBlocks : Blk(p).fbs # <<>>,
   failedRun  |-> \E j \in 1..Len(S) : HasRet(S[j]) /\ RetOf(S[j]).iserr,
   cancelled  |-> \E j \in 1..Len(S) : Cancelled(S[j]),
   multiNode  |-> \E j \in 1..Len(S) : Len(S[j].blocks) > 1,
   nested     |-> \E n \in 1..Len(cfg.nodes) : cfg.nodes[n].kind = "flow" /\ \E f \in 1..Len(cfg.nodes) : cfg.nodes[f].kind = "flow" /\ cfg.nodes[f].start = n,
   emptyAct   |-> \E j \in 1..Len(S) : \E i \in 1..Len(S[j].cbs) : S[j].cbs[i].ev = "post" /\ S[j].cbs[i].out = "ok" /\ S[j].cbs[i].act = NIL,
   eres       |-> \E j \in 1..Len(S) : \E i \in 1..Len(S[j].cbs) : S[j].cbs[i].ev = "exec" /\ S[j].cbs[i].out = "eres",
   funcNode   |-> \E p \in AllBlocks : NodeOf(cfg, Blk(p).node).func
  ]
=============================================================================
