------------------------------ MODULE PropsStore ------------------------------
(***************************************************************************)
(* C14 as a predicate over a sequential store history: every answer the    *)
(* real store gave equals the answer of a plain map (StoreSem!Apply)       *)
(* subjected to the same sequence; every snapshot read back shows its own  *)
(* contents (mutating it never changed the store, later store updates      *)
(* never changed it).                                                      *)
(***************************************************************************)
EXTENDS StoreSem

All(rec)     == \A k \in DOMAIN rec : rec[k]
Failing(rec) == {k \in DOMAIN rec : ~rec[k]}

\* replay the history on the model; remember the first event whose logged result differs
Replay(h) ==
  LET RECURSIVE F(_, _)
      F(i, m) ==
        IF i > Len(h) THEN m
        ELSE LET e == h[i] IN
          IF e.ev = "op" THEN
            LET r == Apply(m.st, e) IN
            F(i + 1, [m EXCEPT !.st = r.st,
                               !.opsok = @ /\ r.res = e.res,
                               !.firstbad = IF @ = 0 /\ r.res # e.res THEN i ELSE @,
                               !.snaps = IF e.op = "getall" THEN Append(@, [st |-> m.st, keys |-> <<>>])
                                         ELSE IF e.op = "keys" THEN Append(@, [st |-> EmptyStore, keys |-> r.res.keys])
                                         ELSE @])
          ELSE IF e.ev = "mutsnap" THEN F(i + 1, [m EXCEPT !.snaps[e.snap].st = Put(@, e.k, e.v)])
          ELSE IF e.ev = "mutkeys" THEN F(i + 1, [m EXCEPT !.snaps[e.snap].keys = [@ EXCEPT ![1] = e.k]])
          ELSE IF e.ev = "mergesnap" THEN F(i + 1, [m EXCEPT !.st = PutAll(@, Pairs(m.snaps[e.snap].st))])
          ELSE IF e.ev = "readsnap" THEN
            F(i + 1, [m EXCEPT !.snapok = @ /\ e.pairs = Pairs(m.snaps[e.snap].st) /\ e.keys = m.snaps[e.snap].keys,
                               !.firstbad = IF @ = 0 /\ ~(e.pairs = Pairs(m.snaps[e.snap].st) /\ e.keys = m.snaps[e.snap].keys) THEN i ELSE @])
          ELSE F(i + 1, [m EXCEPT !.clean = FALSE])          \* panic / unknown event
  IN F(1, [st |-> EmptyStore, snaps |-> <<>>, opsok |-> TRUE, snapok |-> TRUE, clean |-> TRUE, firstbad |-> 0])

C14_Clauses(cfg, R) ==
  [ answersAsMap      |-> R.opsok,      \* every answer equals the reference map's
    snapshotsIsolated |-> R.snapok,     \* GetAll / Keys results are copies
    noPanic           |-> R.clean ]
C14_OK(cfg, h) == All(C14_Clauses(cfg, Replay(h)))

\* the answers of a quiescent store about itself agree with each other (the Consistent invariant of FlytStore,
\* evaluated on the real store after a concurrent stress run)
QuiesceOK(e) == /\ e.len = Len(e.keys) /\ e.len = Len(e.pairs) /\ e.hasall
                /\ \A i \in 1..Len(e.pairs) : e.pairs[i][1] = e.keys[i]

StoreHits(cfg, h) ==
  [ snapshots |-> \E i \in 1..Len(h) : h[i].ev = "readsnap",
    mutated   |-> \E i \in 1..Len(h) : h[i].ev \in {"mutsnap", "mutkeys"},
    merges    |-> \E i \in 1..Len(h) : h[i].ev = "op" /\ h[i].op = "merge",
    clears    |-> \E i \in 1..Len(h) : h[i].ev = "op" /\ h[i].op = "clear",
    nils      |-> \E i \in 1..Len(h) : h[i].ev = "op" /\ h[i].op = "set" /\ h[i].v = 0,
    long      |-> Len(h) >= 100 ]
=============================================================================
