------------------------------ MODULE PropsPool ------------------------------
(***************************************************************************)
(* C12 (and the pool part of C08) as predicates over the history of a      *)
(* worker-pool scenario: submit / submitret (call and return of Submit),   *)
(* taskstart / taskend (entry and exit of the task body, with goroutine    *)
(* id), waitcall / waitret (with the number of task effects the waiter     *)
(* read back), closecall / closeret, leak (surviving pool goroutines),     *)
(* race (a data-race report of the Go race detector).                      *)
(***************************************************************************)
EXTENDS Integers, Sequences, FiniteSets, TLC

Range(s)   == {s[i] : i \in 1..Len(s)}
All(rec)   == \A k \in DOMAIN rec : rec[k]
Failing(rec) == {k \in DOMAIN rec : ~rec[k]}
Idx(n)      == TLCEval([i \in 1..n |-> i])
PosWhere(s, Test(_)) == SelectSeq(Idx(Len(s)), LAMBDA i : Test(s[i]))

Waiter(e) == IF "w" \in DOMAIN e THEN e.w ELSE 0
HasTask(e) == e.ev \in {"submit", "submitret", "taskstart", "taskend"}

\* one left-to-right pass over the history with the sets of submitted / returned / started /
\* finished tasks; every event is checked against what precedes it
Monitor(h, bound) ==
  LET RECURSIVE F(_, _)
      F(i, m) ==
        IF i > Len(h) THEN m
        ELSE LET e == h[i] IN
          IF e.ev = "submit" THEN
            F(i + 1, [m EXCEPT !.submitted = @ \cup {e.task}, !.once = @ /\ e.task \notin m.submitted,
                               !.full = @ \/ (bound >= 0 /\ m.nret - m.nend >= bound)])
          ELSE IF e.ev = "submitret" THEN
            \* back-pressure: a task whose Submit has returned sits in the queue (QCap slots), is in the hands of a
            \* worker (one each), or has finished; a Submit beyond that must block until a task finishes
            F(i + 1, [m EXCEPT !.returned = @ \cup {e.task}, !.retok = @ /\ e.task \in m.submitted /\ e.task \notin m.returned,
                               !.nret = @ + 1, !.bp = @ /\ (bound < 0 \/ (m.nret + 1) - m.nend <= bound)])
          ELSE IF e.ev = "taskstart" THEN
            F(i + 1, [m EXCEPT !.started = @ \cup {e.task}, !.cur = @ + 1, !.maxfl = IF m.cur + 1 > @ THEN m.cur + 1 ELSE @,
                               !.once = @ /\ e.task \in m.submitted /\ e.task \notin m.started])
          ELSE IF e.ev = "taskend" THEN
            F(i + 1, [m EXCEPT !.ended = @ \cup {e.task}, !.cur = @ - 1, !.nend = @ + 1,
                               !.once = @ /\ e.task \in m.started /\ e.task \notin m.ended])
          ELSE IF e.ev = "waitcall" THEN
            \* several goroutines may wait at once (w: the waiter, 0 = the main goroutine): each Wait is a barrier for
            \* everything whose Submit had returned before that Wait was called
            F(i + 1, [m EXCEPT !.atcall = {x \in @ : x[1] # Waiter(e)} \cup {<<Waiter(e), t>> : t \in m.returned},
                               !.waiting = @ \cup {Waiter(e)}, !.waitshape = @ /\ Waiter(e) \notin m.waiting])
          ELSE IF e.ev = "waitret" THEN
            F(i + 1, [m EXCEPT !.waiting = @ \ {Waiter(e)}, !.waitshape = @ /\ Waiter(e) \in m.waiting,
                               !.barrier = @ /\ \A x \in m.atcall : x[1] = Waiter(e) => x[2] \in m.ended,
                               !.visible = @ /\ ("seen" \in DOMAIN e => e.seen = e.submitted)])
          ELSE F(i + 1, m)
  IN F(1, [submitted |-> {}, returned |-> {}, started |-> {}, ended |-> {}, atcall |-> {}, waiting |-> {},
           nret |-> 0, nend |-> 0, bp |-> TRUE, full |-> FALSE,
           cur |-> 0, maxfl |-> 0, once |-> TRUE, retok |-> TRUE, barrier |-> TRUE, visible |-> TRUE, waitshape |-> TRUE])

NW(cfg) == IF cfg.W <= 0 THEN 1 ELSE cfg.W
\* capacity of the pool's task queue: the harness reads it off the real pool object (cap of its channel); 2 * workers in
\* the pinned code; -1 when it could not be read (then the back-pressure clause does not apply)
QCap(cfg)  == IF "qcap" \in DOMAIN cfg THEN cfg.qcap ELSE 2 * NW(cfg)
Bound(cfg) == IF QCap(cfg) < 0 THEN -1 ELSE QCap(cfg) + NW(cfg)
\* a slice of a longer run on one pool that stays open (no Close / leak probe at its end)
Open(cfg) == "open" \in DOMAIN cfg /\ cfg.open

Digest(cfg, h) ==
  [h |-> h,
   m |-> Monitor(h, Bound(cfg)),
   leaks |-> SelectSeq(h, LAMBDA e : e.ev = "leak"),
   bad   |-> \E k \in 1..Len(h) : h[k].ev \in {"race", "hang", "stuck", "panic"}]

C12_Clauses(cfg, D) ==
  [
   \* every submitted task is executed exactly once, after its submission
   exactlyOnce |-> D.m.once /\ D.m.started = D.m.submitted /\ D.m.ended = D.m.submitted,
   \* Submit returns for every task (it blocks while the queue is full, it never drops)
   submitReturns |-> D.m.retok /\ D.m.returned = D.m.submitted,
   \* ... and it does block: never more returned-but-unfinished tasks than queue slots plus workers
   backpressure |-> D.m.bp,
   \* Wait returns only after every previously submitted task has finished ...
   barrier     |-> D.m.barrier /\ D.m.waitshape /\ D.m.waiting = {},
   \* ... with their effects visible to the waiter (plain writes read back after Wait)
   visible     |-> D.m.visible,
   \* after Wait and Close all of the pool's goroutines terminate
   noLeak      |-> Open(cfg) \/ (Len(D.leaks) = 1 /\ D.leaks[1].n = 0),
   \* no data race, no hang
   clean       |-> ~D.bad
  ]
C12_OK(cfg, h) == All(C12_Clauses(cfg, Digest(cfg, h)))

\* pool part of C08: never more than max(W,1) tasks at once
C08P_Clauses(cfg, D) ==
  [ poolBound |-> D.m.maxfl <= NW(cfg),
    \* W tasks that all block do run simultaneously
    \* (a pool whose tasks never run at all - no worker - is not usable either)
    poolUsable |-> ~(\E k \in 1..Len(D.h) : D.h[k].ev \in {"stuck", "hang"}) ]

PoolHits(cfg, D) ==
  [ multiSubmitter |-> cfg.S > 1,
    multiRound     |-> cfg.rounds > 1,
    beyondQueue    |-> Cardinality(D.m.submitted) > 2 * NW(cfg),
    queueFull      |-> D.m.full,           \* a Submit was called while queue and workers were full: it had to block
    paced          |-> Open(cfg),
    overlappingWaits |-> "selfwait" \in DOMAIN cfg /\ cfg.selfwait,
    earlyClose     |-> "early" \in DOMAIN cfg /\ cfg.early,
    overlapped     |-> D.m.maxfl > 1,
    nonPositive    |-> cfg.W <= 0 ]
=============================================================================
