------------------------------ MODULE TPPool ------------------------------
(* Verdict front-end of the pool family (see TPBatch for the conventions). *)
EXTENDS Integers, Sequences, FiniteSets, TLC, Json, IOUtils
P == INSTANCE PropsPool
Trace == ndJsonDeserialize(IOEnv.TRACE)
Props == IOEnv.PROPS
VARIABLES i, stats
vars == <<i, stats>>
Want(p) == Props = "ALL" \/ \E k \in 1..(Len(Props) - 2) : SubSeq(Props, k, k + 2) = p

\* comparison with the exported behaviour: what the scenario controls (the order of Submit calls and
\* task completions) and what the main goroutine saw must agree; how the uncontrolled steps of
\* different goroutines interleave (a worker picking a task up vs. Submit returning vs. Wait being
\* called) is left open, as it is in the specification
Strip(e) == [f \in (DOMAIN e) \ {"gid"} |-> e[f]]
Sel(h, evs) == LET s == SelectSeq(h, LAMBDA e : e.ev \in evs) IN [k \in 1..Len(s) |-> Strip(s[k])]
Proj(h) == <<Sel(h, {"submit", "taskend"}), Sel(h, {"waitcall", "waitret", "closecall", "closeret", "leak"})>>

Judge(c, D) ==
  LET cfg == c.cfg
      \* histories of a Close without Wait are outside what the properties promise: they are only trace-validated
      judged == c.fam # "poolearly"
  IN \E res \in {[C12 |-> IF Want("C12") /\ judged THEN P!Failing(P!C12_Clauses(cfg, D)) ELSE {},
              C08 |-> IF Want("C08") /\ judged THEN P!Failing(P!C08P_Clauses(cfg, D)) ELSE {}]} :
     LET bad == {p \in DOMAIN res : res[p] # {}} IN
     /\ \A p \in bad : PrintT(<<"FAIL", c.scn, p, res[p]>>)
     /\ (c.hasexp /\ Proj(c.exp) # Proj(c.h)) => PrintT(<<"DRIFT", c.scn>>)

HitKeys == {"multiSubmitter", "multiRound", "beyondQueue", "overlapped", "nonPositive", "queueFull", "paced", "earlyClose", "overlappingWaits"}
Init == /\ i = 1
        /\ stats = [scenarios |-> 0, events |-> 0, hits |-> [k \in HitKeys |-> 0]]
Next ==
  /\ i <= Len(Trace)
  /\ i' = i + 1
  \* TLC does not cache LET definitions while it evaluates an action: binding the digest with a
  \* quantifier over a singleton set makes it a value that is computed once
  /\ \E c \in {Trace[i]} : \E D \in {P!Digest(c.cfg, c.h)} : \E x \in {P!PoolHits(c.cfg, D)} :
        /\ Judge(c, D)
        /\ stats' = [scenarios |-> stats.scenarios + 1, events |-> stats.events + Len(c.h),
                     hits |-> [k \in HitKeys |-> stats.hits[k] + (IF x[k] THEN 1 ELSE 0)]]
  /\ (i = Len(Trace) => PrintT(<<"SUMMARY", stats'>>))
Spec == Init /\ [][Next]_vars
Consumed == TLCGet("stats").diameter - 1 = Len(Trace)
=============================================================================
