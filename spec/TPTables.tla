------------------------------ MODULE TPTables ------------------------------
(* Verdict front-end of the table families: accessors (C15), Bind (C16), configuration (C19). *)
EXTENDS Integers, Sequences, FiniteSets, TLC, Json, IOUtils
A == INSTANCE FlytAccess WITH cell <- 0
B == INSTANCE FlytBind WITH cell <- 0
C == INSTANCE FlytConfig WITH MaxSteps <- 6, kind <- "node", steps <- <<>>, cfg <- 0
D == INSTANCE FlytDefaults WITH cell <- 0
Trace == ndJsonDeserialize(IOEnv.TRACE)
Props == IOEnv.PROPS
VARIABLES i, stats
vars == <<i, stats>>
Init == i = 1 /\ stats = [scenarios |-> 0, events |-> 0]
Failing(c) == CASE c.fam = "access" -> A!C15_Failing(c.h)
                [] c.fam = "bind"   -> B!C16_Failing(c.h)
                [] c.fam = "config" -> C!C19_Failing(c.cfg, c.h)
                \* partial nodes: the whole table for C01, the action rule alone for C18
                [] c.fam = "defaults" -> IF Props = "C18" THEN D!Defaults_Failing(c.h) \cap {"partialAction"}
                                         ELSE IF Props = "C17" THEN D!Defaults_Failing(c.h) \cap {"partialValues"}    \* values handed from phase to phase
                                         ELSE D!Defaults_Failing(c.h)
PropOf(c) == CASE c.fam = "access" -> "C15" [] c.fam = "bind" -> "C16" [] c.fam = "config" -> "C19" [] c.fam = "defaults" -> Props
Detail(c) == CASE c.fam = "access" -> A!C15_BadCalls(c.h) [] c.fam = "bind" -> B!C16_BadCalls(c.h) [] OTHER -> {}
Next ==
  /\ i <= Len(Trace)
  /\ i' = i + 1
  /\ \E c \in {Trace[i]} : \E bad \in {Failing(c)} :
        /\ (bad # {} => PrintT(<<"FAIL", c.scn, PropOf(c), bad>>) /\ PrintT(<<"INFO", c.scn, Detail(c)>>))
        /\ stats' = [scenarios |-> stats.scenarios + 1, events |-> stats.events + Len(c.h)]
  /\ (i = Len(Trace) => PrintT(<<"SUMMARY", stats'>>))
Spec == Init /\ [][Next]_vars
Consumed == TLCGet("stats").diameter - 1 = Len(Trace)
=============================================================================
