------------------------------ MODULE TraceEngine ------------------------------
(***************************************************************************)
(* Trace validation of recorded engine histories against the operational   *)
(* specification FlytEngine (code -> spec direction): every recorded event *)
(* must be produced by the corresponding FlytEngine action, with exactly   *)
(* the logged field values (the action's parameters are bound to the       *)
(* logged outcome; everything else - argument tokens, wrapping state,      *)
(* returned errors - is computed by the specification and must coincide);  *)
(* the specification's internal steps (context checks, loop heads, flow    *)
(* routing) are not logged and are inferred by TLC as silent steps.        *)
(*                                                                         *)
(* One TLC run validates a whole file: Accept moves on after a completely  *)
(* explained history (printing TRACE-OK), Skip abandons a history from any *)
(* state so that an unexplained one does not block the rest.               *)
(***************************************************************************)
EXTENDS FlytEngine, Json, IOUtils

Trace == ndJsonDeserialize(IOEnv.TRACE)

VARIABLES i,   \* current scenario (line of the file)
          l    \* next event of its history
tvars == <<cfg, tbl, stack, ctx, ret, h, ph, tok, ci, run, i, l>>

H == Trace[i].h
Ev == H[l]
Loaded == i <= Len(Trace)
More == Loaded /\ l <= Len(H)

\* configuration as the specification wants it (the JSON record has a few more fields; they are ignored)
TInit == /\ i = 1 /\ l = 1
         /\ IF Len(Trace) >= 1 THEN InitWith(Trace[1].cfg) ELSE InitWith([nodes |-> <<>>])

\* the event the action appended is exactly the logged one
Matches == h' = Append(h, Ev)

CbOutcome == [out |-> Ev.out, nilv |-> (Ev.out = "ok" /\ Ev.val = 0), cancel |-> Ev.cancel]

\* a panicking callback: its event and the harness' "panic" event are appended in one step
PanicStep ==
  /\ More /\ l + 1 <= Len(H) /\ Ev.ev \in {"prep", "exec", "post"} /\ Ev.out = "panic" /\ H[l + 1].ev = "panic"
  /\ ph = "running" /\ stack # <<>> /\ Top.t = "run" /\ CallbackPanic
  /\ h' = h \o <<H[l], H[l + 1]>>
  /\ l' = l + 2 /\ i' = i

Observable ==
  /\ More
  /\ l' = l + 1 /\ i' = i
  /\ IF Ev.ev \in {"prep", "exec", "post"} THEN Ev.out # "panic" ELSE TRUE
  /\ \/ Ev.ev = "connect" /\ (Connect \/ ConnectInRun) /\ Matches
     \/ Ev.ev = "runcall" /\ StartRun /\ Matches
     \/ Ev.ev = "prep" /\ PrepCb(CbOutcome) /\ Matches
     \/ Ev.ev = "exec" /\ ExecCb(CbOutcome) /\ Matches
     \/ Ev.ev = "fb"   /\ FbCb(CbOutcome) /\ Matches
     \/ Ev.ev = "post" /\ PostCb([out |-> Ev.out, act |-> Ev.act, cancel |-> Ev.cancel]) /\ Matches
     \/ Ev.ev = "runret" /\ Finish /\ Matches

Silent == Loaded /\ Internal /\ UNCHANGED <<i, l>>

Fresh == /\ i' = i + 1 /\ l' = 1
         /\ IF i + 1 <= Len(Trace)
              THEN /\ cfg' = Trace[i + 1].cfg
                   /\ tbl' = [n \in 1..Len(Trace[i + 1].cfg.nodes) |-> <<>>]
              ELSE /\ cfg' = [nodes |-> <<>>] /\ tbl' = <<>>
         /\ stack' = <<>> /\ ctx' = "live" /\ ret' = NoRet /\ h' = <<>> /\ ph' = "setup" /\ tok' = 1 /\ ci' = 0 /\ run' = 1

\* the whole history was explained and the specification is at rest
Accept == /\ Loaded /\ l > Len(H) /\ ph \in {"done", "setup"} /\ stack = <<>>
          /\ PrintT(<<"TRACE-OK", Trace[i].scn>>)
          /\ Fresh
Skip   == /\ More /\ Fresh

TNext == Observable \/ PanicStep \/ Silent \/ Accept \/ Skip
TSpec == TInit /\ [][TNext]_tvars
=============================================================================
