------------------------------ MODULE TPBatch ------------------------------
(***************************************************************************)
(* Verdict front-end of the batch family: reads histories recorded from    *)
(* the real batch runner (one scenario per line: configuration, expected   *)
(* behaviour if exported by TLC, recorded history) and evaluates the       *)
(* PropsBatch predicates on every history.                                 *)
(*   <<"FAIL", scn, "C09", {clauses}>>   <<"DRIFT", scn>>   <<"SUMMARY",_>> *)
(***************************************************************************)
EXTENDS Integers, Sequences, FiniteSets, TLC, Json, IOUtils

P == INSTANCE PropsBatch

Trace == ndJsonDeserialize(IOEnv.TRACE)
Props == IOEnv.PROPS

VARIABLES i, stats
vars == <<i, stats>>

Want(p) == Props = "ALL" \/ \E k \in 1..(Len(Props) - 2) : SubSeq(Props, k, k + 2) = p

\* comparison with the exported behaviour ignores goroutine ids and the order in which
\* exec calls that start together take their entry tickets
Strip(e) == [f \in (DOMAIN e) \ {"gid"} |-> e[f]]
RECURSIVE SortRun(_)
SortRun(s) == \* insertion sort of a run of execin events by item
  IF Len(s) <= 1 THEN s
  ELSE LET m == CHOOSE k \in 1..Len(s) : \A j \in 1..Len(s) : s[k].item <= s[j].item
       IN <<s[m]>> \o SortRun(SubSeq(s, 1, m - 1) \o SubSeq(s, m + 1, Len(s)))
RECURSIVE NormFrom(_, _)
NormFrom(h, k) ==
  IF k > Len(h) THEN <<>>
  ELSE IF h[k].ev # "execin" THEN <<Strip(h[k])>> \o NormFrom(h, k + 1)
  ELSE LET RECURSIVE EndOfRun(_)
           EndOfRun(j) == IF j < Len(h) /\ h[j + 1].ev = "execin" THEN EndOfRun(j + 1) ELSE j
           e == EndOfRun(k)
           run == [x \in 1..(e - k + 1) |-> Strip(h[k + x - 1])]
       IN SortRun(run) \o NormFrom(h, e + 1)
NormB(h) == NormFrom(h, 1)

Judge(c, D) ==
  LET cfg == c.cfg
  IN \E res \in {[C06 |-> IF Want("C06") THEN P!Failing(P!C06_Clauses(cfg, D)) ELSE {},
              C07 |-> IF Want("C07") THEN P!Failing(P!C07_Clauses(cfg, D)) ELSE {},
              C08 |-> IF Want("C08") THEN P!Failing(P!C08_Clauses(cfg, D)) ELSE {},
              C09 |-> IF Want("C09") THEN P!Failing(P!C09_Clauses(cfg, D)) ELSE {},
              C11 |-> IF Want("C11") THEN P!Failing(P!C11_Clauses(cfg, D)) ELSE {},
              C02 |-> IF Want("C02") THEN P!Failing(P!C02B_Clauses(cfg, D)) ELSE {},
              C03 |-> IF Want("C03") THEN P!Failing(P!C03B_Clauses(cfg, D)) ELSE {},
              C04 |-> IF Want("C04") THEN P!Failing(P!C04B_Clauses(cfg, D)) ELSE {},
              C17 |-> IF Want("C17") THEN P!Failing(P!C17B_Clauses(cfg, D)) ELSE {},
              C18 |-> IF Want("C18") THEN P!Failing(P!C18B_Clauses(cfg, D)) ELSE {}]} :
     LET bad == {p \in DOMAIN res : res[p] # {}} IN
     /\ \A p \in bad : PrintT(<<"FAIL", c.scn, p, res[p]>>)
     /\ (c.hasexp /\ NormB(c.exp) # NormB(c.h)) => PrintT(<<"DRIFT", c.scn>>)

\* a batch whose items are all equal to each other (the same number, string, pointer, error value ...): they are n items
\* all the same - each is handed to exec once and has its slot (the harness counts; family batchdup)
JudgeDup(c) ==
  LET F == SelectSeq(c.h, LAMBDA e : e.ev = "dupfacts")
      ok == /\ Len(F) = 1 /\ ~F[1].hung /\ ~F[1].panicked /\ ~F[1].iserr
            /\ F[1].execs = c.cfg.n /\ F[1].items = c.cfg.n /\ F[1].slots = c.cfg.n /\ F[1].okslots = c.cfg.n /\ F[1].posts = 1
  IN \A p \in {q \in {"C06", "C07"} : Want(q) /\ ~ok} : PrintT(<<"FAIL", c.scn, p, {"equalItemsAreItems"}>>)

HitKeys == {"concurrent", "retried", "fallback", "stopmode", "failedItem", "skipped", "cancelled", "emptyBatch", "overlapped"}

Init == /\ i = 1
        /\ stats = [scenarios |-> 0, events |-> 0, hits |-> [k \in HitKeys |-> 0]]

Next ==
  /\ i <= Len(Trace)
  /\ i' = i + 1
  \* TLC does not cache LET definitions while it evaluates an action: binding the digest with a
  \* quantifier over a singleton set makes it a value that is computed once
  /\ \E c \in {Trace[i]} :
      IF c.fam = "batchdup"
      THEN /\ JudgeDup(c)
           /\ stats' = [stats EXCEPT !.scenarios = @ + 1, !.events = @ + Len(c.h)]
      ELSE \E D \in {P!Digest(c.cfg, c.h)} : \E x \in {P!BatchHits(c.cfg, D)} :
        /\ Judge(c, D)
        /\ stats' = [scenarios |-> stats.scenarios + 1, events |-> stats.events + Len(c.h),
                     hits |-> [k \in HitKeys |-> stats.hits[k] + (IF x[k] THEN 1 ELSE 0)]]
  /\ (i = Len(Trace) => PrintT(<<"SUMMARY", stats'>>))

Spec == Init /\ [][Next]_vars
Consumed == TLCGet("stats").diameter - 1 = Len(Trace)
=============================================================================
