------------------------------ MODULE FlytBatch ------------------------------
(***************************************************************************)
(* Operational specification of flyt's batch runner: runBatch,             *)
(* runBatchSequential, runBatchConcurrent, runExecWithRetries               *)
(* (batch.go:155-344) on top of the WorkerPool (flyt.go:935-1013).          *)
(*                                                                         *)
(* Implementation-shaped: the caller goroutine (main) runs prep, submits   *)
(* one task per item into a FIFO queue of capacity 2*c (blocking when it   *)
(* is full), waits for the WaitGroup and runs post; c workers pick tasks   *)
(* up, read the stop flag under the mutex, check the context, run the      *)
(* retry loop, record the result and set the stop flag under the mutex.    *)
(* With c = 0 the caller itself runs the item pipelines in index order.    *)
(*                                                                         *)
(* Every step that the code performs between two lock operations or        *)
(* channel operations is one action, so TLC explores the races between     *)
(* one worker's Record and another worker's StopCheck, between a           *)
(* cancellation and every context check, and between submission and        *)
(* completion.                                                             *)
(*                                                                         *)
(* The specification describes the INTENDED behaviour where the pinned     *)
(* code deviated from the listed properties (see DESIGN.md section 7):     *)
(* slots of items skipped by a sequential stop are errors, and the empty   *)
(* batch normalises the empty action like every other run.                 *)
(***************************************************************************)
EXTENDS Integers, Sequences, FiniteSets, TLC

VARIABLES
  cfg,    \* scenario configuration
  main,   \* the goroutine that called flyt.Run: [pc, i]
  queue,  \* FIFO of submitted, not yet picked up items
  nxt,    \* next item to submit (concurrent) / to run (sequential)
  wk,     \* wk[w]: state of worker w (1..c); wk[0] is the caller's inline pipeline (sequential mode)
  wg,     \* WaitGroup counter
  stop,   \* shouldStop flag (protected by mu)
  ctx,    \* "live" | "done"
  slots,  \* result slots, one per item
  ret,    \* what Run returned
  h       \* history of observable events

vars == <<cfg, main, queue, nxt, wk, wg, stop, ctx, slots, ret, h>>

NIL == 0
DefaultAct == 1

\* ---- tokens: every value is minted for one item and one attempt ----------
ItemTok(i)   == 1000 * i
ValTok(i, k) == 1000 * i + k
ErrTok(i, k) == 1000 * i + 100 + k
FbValTok(i)  == 1000 * i + 500
FbErrTok(i)  == 1000 * i + 600
PrepErrTok   == 7
PostErrTok   == 8

Items   == 1..cfg.n
Workers == IF cfg.c > 0 THEN 1..cfg.c ELSE {0}
Cap     == 2 * cfg.c

\* a slot / pipeline result: error state, value token, error tokens it matches
Unset        == [iserr |-> FALSE, tok |-> 0, errs |-> {}, set |-> FALSE, soft |-> FALSE]
OkRes(t)     == [iserr |-> FALSE, tok |-> t, errs |-> {}, set |-> TRUE,  soft |-> FALSE]
ErrRes(E)    == [iserr |-> TRUE,  tok |-> 0, errs |-> E,  set |-> TRUE,  soft |-> FALSE]
\* an error Result returned by the exec function together with a nil Go error: it is stored in the
\* slot as it is, but it is not a failure of the pipeline (no retry, no fallback, no stop)
SoftErr(E)   == [iserr |-> TRUE,  tok |-> 0, errs |-> E,  set |-> TRUE,  soft |-> TRUE]
SkipRes      == ErrRes({})          \* "batch stopped due to error" / "context cancelled": fresh errors

Idle == [st |-> "idle", item |-> 0, att |-> 0, last |-> 0, res |-> Unset]

SortedSeq(S) ==
  LET RECURSIVE F(_)
      F(T) == IF T = {} THEN <<>>
              ELSE LET m == CHOOSE x \in T : \A y \in T : x <= y
                   IN <<m>> \o F(T \ {m})
  IN F(S)

\* <<Op(1), ..., Op(n)>> built as a real tuple (prints as a JSON array)
MkSeq(n, Op(_)) ==
  LET RECURSIVE F(_)
      F(i) == IF i > n THEN <<>> ELSE <<Op(i)>> \o F(i + 1)
  IN F(1)

\* ---- events ----------------------------------------------------------------
EvSlot(s) == [iserr |-> s.iserr, tok |-> s.tok, errs |-> SortedSeq(s.errs)]
EvBPrep(o)   == [ev |-> "bprep", sok |-> TRUE, out |-> o, n |-> IF o = "ok" THEN cfg.n ELSE 0,
                 items |-> IF o = "ok" THEN MkSeq(cfg.n, ItemTok) ELSE <<>>,
                 err |-> IF o = "err" THEN PrepErrTok ELSE 0]
EvExecIn(w, i, k) == [ev |-> "execin", item |-> i, k |-> k, arg |-> ItemTok(i), aid |-> TRUE, gid |-> w]
EvExecOut(w, i, k, o) == [ev |-> "execout", item |-> i, k |-> k, out |-> o.out,
                          val |-> IF o.out = "ok" THEN ValTok(i, k) ELSE 0,
                          err |-> IF o.out \in {"err", "eres"} THEN ErrTok(i, k) ELSE 0,
                          cancel |-> o.cancel, gid |-> w]
EvFb(w, i, last, o) == [ev |-> "fb", item |-> i, arg |-> ItemTok(i), aid |-> TRUE, errseen |-> <<last>>, out |-> o.out,
                        val |-> IF o.out = "ok" THEN FbValTok(i) ELSE 0,
                        err |-> IF o.out = "err" THEN FbErrTok(i) ELSE 0, cancel |-> o.cancel, gid |-> w]
EvBPost(o) == [ev |-> "bpost", sok |-> TRUE, items |-> MkSeq(cfg.n, ItemTok),
               slots |-> MkSeq(cfg.n, LAMBDA i : EvSlot(slots[i])),
               out |-> o.out, act |-> IF o.out = "ok" THEN o.act ELSE 0, err |-> IF o.out = "err" THEN PostErrTok ELSE 0,
               cancel |-> o.cancel]
EvRunRet(r) == [ev |-> "runret", act |-> r.act, iserr |-> r.iserr, errs |-> SortedSeq(r.errs), ctxerr |-> r.ctxerr]

Cancels  == IF cfg.cancel THEN BOOLEAN ELSE {FALSE}
ExecOuts == [out : cfg.outs, cancel : Cancels]
FbOuts   == [out : {"ok", "err"}, cancel : Cancels]
PostOuts == [out : {"ok"}, act : cfg.acts, cancel : Cancels] \cup
            (IF cfg.posterr THEN [out : {"err"}, act : {0}, cancel : {FALSE}] ELSE {})

InitWith(c) ==
  /\ cfg = c
  /\ main = [pc |-> "start"]
  /\ queue = <<>>
  /\ nxt = 1
  /\ wk = [w \in (IF c.c > 0 THEN 1..c.c ELSE {0}) |-> Idle]
  /\ wg = 0
  /\ stop = FALSE
  /\ ctx = IF c.ctx0 THEN "done" ELSE "live"
  /\ slots = [i \in 1..c.n |-> Unset]
  /\ ret = [some |-> FALSE]
  /\ h = <<>>

Done(r) == /\ ret' = [some |-> TRUE, act |-> r.act, iserr |-> r.iserr, errs |-> r.errs, ctxerr |-> r.ctxerr]
           /\ h' = Append(h, EvRunRet(r))
           /\ main' = [pc |-> "done"]

RetOk(a)   == [act |-> a, iserr |-> FALSE, errs |-> {}, ctxerr |-> FALSE]
RetErr(E)  == [act |-> 0, iserr |-> TRUE, errs |-> E, ctxerr |-> FALSE]

(* ---------------------------------------------------------------------- *)
(* the caller: prep, dispatch, wait, post  (batch.go:156-229)              *)
(* ---------------------------------------------------------------------- *)
Start ==
  /\ main.pc = "start"
  /\ h' = Append(h, [ev |-> "runcall", ctxdone |-> (ctx = "done")])
  /\ main' = [pc |-> "prep"]
  /\ UNCHANGED <<cfg, queue, nxt, wk, wg, stop, ctx, slots, ret>>

\* runBatch does not look at the context before prep
Prep(o) ==
  /\ main.pc = "prep"
  /\ IF o = "ok"
       THEN /\ h' = Append(h, EvBPrep(o))
            /\ main' = [pc |-> IF cfg.n = 0 THEN "post" ELSE IF cfg.c > 0 THEN "submit" ELSE "seq"]
            /\ ret' = ret
       ELSE /\ ret' = [some |-> TRUE, act |-> 0, iserr |-> TRUE, errs |-> {PrepErrTok}, ctxerr |-> FALSE]
            /\ h' = h \o <<EvBPrep(o), EvRunRet(RetErr({PrepErrTok}))>>
            /\ main' = [pc |-> "done"]
  /\ UNCHANGED <<cfg, queue, nxt, wk, wg, stop, ctx, slots>>

\* pool.Submit: wg.Add(1), then a send that blocks while the queue is full (flyt.go:992-998)
Submit ==
  /\ main.pc = "submit" /\ nxt <= cfg.n /\ Len(queue) < Cap
  /\ queue' = Append(queue, nxt)
  /\ nxt' = nxt + 1
  /\ wg' = wg + 1
  /\ UNCHANGED <<cfg, main, wk, stop, ctx, slots, ret, h>>
SubmitDone ==
  /\ main.pc = "submit" /\ nxt > cfg.n
  /\ main' = [pc |-> "wait"]
  /\ UNCHANGED <<cfg, queue, nxt, wk, wg, stop, ctx, slots, ret, h>>
\* pool.Wait returns when the counter is zero
WaitRet ==
  /\ main.pc = "wait" /\ wg = 0
  /\ main' = [pc |-> "post"]
  /\ UNCHANGED <<cfg, queue, nxt, wk, wg, stop, ctx, slots, ret, h>>

\* post, once, with all items and all slots; the empty action is normalised
Post(o) ==
  /\ main.pc = "post"
  /\ ctx' = IF o.cancel THEN "done" ELSE ctx
  /\ LET r == IF o.out = "ok" THEN RetOk(IF o.act = NIL THEN DefaultAct ELSE o.act) ELSE RetErr({PostErrTok})
     IN /\ ret' = [some |-> TRUE, act |-> r.act, iserr |-> r.iserr, errs |-> r.errs, ctxerr |-> r.ctxerr]
        /\ h' = h \o <<EvBPost(o), EvRunRet(r)>>
  /\ main' = [pc |-> "done"]
  /\ UNCHANGED <<cfg, queue, nxt, wk, wg, stop, slots>>

\* The caller kept the lists post was handed and looks at them again after the same node object has run once more
\* (the next pass of a looping flow): they belong to the run that produced them and still read the same.
LookAgain ==
  /\ main.pc = "done" /\ "after" \in DOMAIN cfg /\ cfg.after
  /\ \E k \in 1..Len(h) : h[k].ev = "bpost"
  /\ ~\E k \in 1..Len(h) : h[k].ev = "bpostagain"
  /\ h' = Append(h, [ev |-> "bpostagain", items |-> MkSeq(cfg.n, ItemTok), slots |-> MkSeq(cfg.n, LAMBDA i : EvSlot(slots[i]))])
  /\ UNCHANGED <<cfg, main, queue, nxt, wk, wg, stop, ctx, slots, ret>>

(* ---------------------------------------------------------------------- *)
(* the item pipeline: runExecWithRetries (batch.go:304-344)                *)
(* ---------------------------------------------------------------------- *)
W(w) == wk[w]
SetW(w, r) == wk' = [wk EXCEPT ![w] = r]

\* loop head: budget, then context (batch.go:317-320)
PLoop(w) ==
  /\ W(w).st = "loop"
  /\ IF W(w).att >= cfg.N
       THEN SetW(w, [W(w) EXCEPT !.st = "after"])
       ELSE IF ctx = "done"
              THEN SetW(w, [W(w) EXCEPT !.st = "record", !.res = ErrRes({})])  \* "context cancelled during retry"
              ELSE SetW(w, [W(w) EXCEPT !.st = IF W(w).att > 0 /\ cfg.w > 0 THEN "wait" ELSE "enter"])
  /\ UNCHANGED <<cfg, main, queue, nxt, wg, stop, ctx, slots, ret, h>>

PWaitElapsed(w) ==
  /\ W(w).st = "wait" /\ ctx = "live"
  /\ SetW(w, [W(w) EXCEPT !.st = "enter"])
  /\ UNCHANGED <<cfg, main, queue, nxt, wg, stop, ctx, slots, ret, h>>
PWaitCancelled(w) ==
  /\ W(w).st = "wait" /\ ctx = "done"
  /\ SetW(w, [W(w) EXCEPT !.st = "record", !.res = ErrRes({})])
  /\ UNCHANGED <<cfg, main, queue, nxt, wg, stop, ctx, slots, ret, h>>

\* the user's exec function is entered ...
PEnter(w) ==
  /\ W(w).st = "enter"
  /\ h' = Append(h, EvExecIn(w, W(w).item, W(w).att + 1))
  /\ SetW(w, [W(w) EXCEPT !.st = "inexec"])
  /\ UNCHANGED <<cfg, main, queue, nxt, wg, stop, ctx, slots, ret>>

\* ... and returns (this is the step the harness gates)
PExecOut(w, o) ==
  /\ W(w).st = "inexec"
  /\ h' = Append(h, EvExecOut(w, W(w).item, W(w).att + 1, o))
  /\ ctx' = IF o.cancel THEN "done" ELSE ctx
  /\ IF o.out \in {"ok", "nil"}       \* "nil": the attempt succeeds with a nil value - an outcome like any other
       THEN SetW(w, [W(w) EXCEPT !.st = "record", !.att = @ + 1,
                                 !.res = OkRes(IF o.out = "ok" THEN ValTok(W(w).item, W(w).att + 1) ELSE 0)])
       ELSE IF o.out = "eres"
       THEN SetW(w, [W(w) EXCEPT !.st = "record", !.att = @ + 1, !.res = SoftErr({ErrTok(W(w).item, W(w).att + 1)})])
       ELSE SetW(w, [W(w) EXCEPT !.st = "loop", !.att = @ + 1, !.last = ErrTok(W(w).item, W(w).att + 1)])
  /\ UNCHANGED <<cfg, main, queue, nxt, wg, stop, slots, ret>>

\* all attempts failed: fallback or the last error (batch.go:336-341)
PAfter(w) ==
  /\ W(w).st = "after"
  /\ IF W(w).att = 0
       THEN SetW(w, [W(w) EXCEPT !.st = "record", !.res = OkRes(0)])      \* budget 0: no attempt, nil result
       ELSE IF cfg.fb
              THEN SetW(w, [W(w) EXCEPT !.st = "fb"])
              ELSE SetW(w, [W(w) EXCEPT !.st = "record", !.res = ErrRes({W(w).last})])
  /\ UNCHANGED <<cfg, main, queue, nxt, wg, stop, ctx, slots, ret, h>>

PFb(w, o) ==
  /\ W(w).st = "fb"
  /\ h' = Append(h, EvFb(w, W(w).item, W(w).last, o))
  /\ ctx' = IF o.cancel THEN "done" ELSE ctx
  /\ SetW(w, [W(w) EXCEPT !.st = "record",
                          !.res = IF o.out = "ok" THEN OkRes(FbValTok(W(w).item)) ELSE ErrRes({FbErrTok(W(w).item)})])
  /\ UNCHANGED <<cfg, main, queue, nxt, wg, stop, slots, ret>>

(* ---------------------------------------------------------------------- *)
(* concurrent mode: the task body around the pipeline (batch.go:268-298)   *)
(* ---------------------------------------------------------------------- *)
\* a worker receives the head of the queue
Pickup(w) ==
  /\ cfg.c > 0 /\ W(w).st = "idle" /\ queue # <<>>
  /\ queue' = Tail(queue)
  /\ SetW(w, [Idle EXCEPT !.st = "check", !.item = Head(queue)])
  /\ UNCHANGED <<cfg, main, nxt, wg, stop, ctx, slots, ret, h>>

\* under mu: read the stop flag (batch.go:269-275)
StopCheck(w) ==
  /\ W(w).st = "check"
  /\ IF stop /\ cfg.stopmode
       THEN /\ slots' = [slots EXCEPT ![W(w).item] = SkipRes]
            /\ wg' = wg - 1
            /\ SetW(w, Idle)
       ELSE /\ SetW(w, [W(w) EXCEPT !.st = "ctx"])
            /\ UNCHANGED <<slots, wg>>
  /\ UNCHANGED <<cfg, main, queue, nxt, stop, ctx, ret, h>>

\* context check before the pipeline (batch.go:277-280)
CtxCheck(w) ==
  /\ W(w).st = "ctx"
  /\ IF ctx = "done"
       THEN /\ slots' = [slots EXCEPT ![W(w).item] = SkipRes]
            /\ wg' = wg - 1
            /\ SetW(w, Idle)
       ELSE /\ SetW(w, [W(w) EXCEPT !.st = "loop"])
            /\ UNCHANGED <<slots, wg>>
  /\ UNCHANGED <<cfg, main, queue, nxt, stop, ctx, ret, h>>

\* under mu: store the result, set the stop flag on failure in stop mode (batch.go:284-297)
Record(w) ==
  /\ cfg.c > 0 /\ W(w).st = "record"
  /\ slots' = [slots EXCEPT ![W(w).item] = W(w).res]
  /\ stop' = (stop \/ (W(w).res.iserr /\ ~W(w).res.soft /\ cfg.stopmode))
  /\ wg' = wg - 1
  /\ SetW(w, Idle)
  /\ UNCHANGED <<cfg, main, queue, nxt, ctx, ret, h>>

(* ---------------------------------------------------------------------- *)
(* sequential mode: the caller runs the pipelines itself (batch.go:231-255)*)
(* ---------------------------------------------------------------------- *)
\* slots of the items a stop leaves unprocessed: errors, never zero Results
SkipFrom(s, i) == [j \in DOMAIN s |-> IF j >= i THEN (IF s[j].set THEN s[j] ELSE SkipRes) ELSE s[j]]

SeqTop ==
  /\ main.pc = "seq" /\ W(0).st = "idle"
  /\ IF nxt > cfg.n
       THEN main' = [pc |-> "post"] /\ UNCHANGED <<nxt, slots, wk>>
       ELSE IF ctx = "done"
              THEN IF cfg.stopmode
                     THEN /\ slots' = SkipFrom(slots, nxt)              \* break
                          /\ main' = [pc |-> "post"] /\ UNCHANGED <<nxt, wk>>
                     ELSE /\ slots' = [slots EXCEPT ![nxt] = SkipRes]   \* continue
                          /\ nxt' = nxt + 1 /\ UNCHANGED <<main, wk>>
              ELSE /\ SetW(0, [Idle EXCEPT !.st = "loop", !.item = nxt])
                   /\ UNCHANGED <<main, nxt, slots>>
  /\ UNCHANGED <<cfg, queue, wg, stop, ctx, ret, h>>

SeqRecord ==
  /\ cfg.c = 0 /\ W(0).st = "record"
  /\ IF W(0).res.iserr /\ ~W(0).res.soft /\ cfg.stopmode
       THEN /\ slots' = SkipFrom([slots EXCEPT ![W(0).item] = W(0).res], W(0).item + 1)    \* break
            /\ main' = [pc |-> "post"] /\ UNCHANGED nxt
       ELSE /\ slots' = [slots EXCEPT ![W(0).item] = W(0).res]
            /\ nxt' = nxt + 1 /\ UNCHANGED main
  /\ SetW(0, Idle)
  /\ UNCHANGED <<cfg, queue, wg, stop, ctx, ret, h>>

(* ---------------------------------------------------------------------- *)
(* next-state relation                                                     *)
(* ---------------------------------------------------------------------- *)
InternalW(w) == PLoop(w) \/ PWaitElapsed(w) \/ PWaitCancelled(w) \/ PEnter(w) \/ PAfter(w)
                \/ Pickup(w) \/ StopCheck(w) \/ CtxCheck(w) \/ Record(w)
InternalMain == Start \/ Submit \/ SubmitDone \/ WaitRet \/ SeqTop \/ SeqRecord

\* nothing but a gated callback return can happen: every worker is idle or parked inside exec,
\* no idle worker has work, the caller is blocked
Quiescent ==
  /\ \A w \in Workers : W(w).st \in {"idle", "inexec"}
  /\ ~(cfg.c > 0 /\ queue # <<>> /\ \E w \in Workers : W(w).st = "idle")
  /\ \/ main.pc = "wait" /\ wg > 0
     \/ main.pc = "submit" /\ nxt <= cfg.n /\ Len(queue) >= Cap
     \/ main.pc = "seq" /\ W(0).st # "idle"

\* with cfg.gated the user callbacks return only when the system is quiescent - exactly the
\* schedules the harness realises by parking every exec call on a gate
CbEnabled == ~cfg.gated \/ Quiescent

Next ==
  \/ InternalMain
  \/ \E w \in Workers : InternalW(w)
  \/ \E o \in {"ok"} \cup (IF cfg.preperr THEN {"err"} ELSE {}) : Prep(o)
  \/ \E o \in PostOuts : Post(o)
  \/ LookAgain
  \/ CbEnabled /\ \E w \in Workers : \E o \in ExecOuts : PExecOut(w, o)
  \/ \E w \in Workers : \E o \in FbOuts : PFb(w, o)      \* the fallback follows the last attempt at once (not gated)

(* ---------------------------------------------------------------------- *)
(* design-level invariants                                                 *)
(* ---------------------------------------------------------------------- *)
Running == {w \in Workers : W(w).st \in {"inexec"}}
TypeOK == /\ ctx \in {"live", "done"}
          /\ wg >= 0
          /\ Len(queue) <= Cap \/ cfg.c = 0
\* C08: never more than c item executions in flight (one when sequential)
ConcurrencyBound == Cardinality(Running) <= (IF cfg.c > 0 THEN cfg.c ELSE 1)
\* the WaitGroup counts exactly the submitted, unfinished tasks
WgCount == cfg.c > 0 => wg = Len(queue) + Cardinality({w \in Workers : W(w).st # "idle"})
\* C06: post only when every item is settled
AllSettledAtPost == main.pc = "post" => \A i \in Items : slots[i].set
\* C09: a slot never shows a success for an item that did not succeed
NoFakeSuccess == \A i \in Items : (slots[i].set /\ ~slots[i].iserr /\ slots[i].tok # 0) => slots[i].tok \div 1000 = i
\* attempts never exceed the budget
AttemptBound == \A w \in Workers : W(w).att <= cfg.N
\* C18: success carries a non-empty action
NoEmptyAction == (ret.some /\ ~ret.iserr) => ret.act # NIL
=============================================================================
