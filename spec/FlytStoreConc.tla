--------------------------- MODULE FlytStoreConc ---------------------------
(***************************************************************************)
(* C13: linearizability of flyt.SharedStore, decided history by history.   *)
(*                                                                         *)
(* A concurrent history is a sequence of call / ret events of G client     *)
(* goroutines (call logged before invoking the store, ret after it         *)
(* returned, both under one lock, so every logged interval contains the    *)
(* real one).  The specification of the concurrent object is:              *)
(*     Call(g, op)  - g's operation becomes pending                        *)
(*     Lin(g)       - SILENT: the pending operation takes effect           *)
(*                    atomically on the sequential store (StoreSem!Apply)  *)
(*     Ret(g, res)  - the operation returns what Lin computed              *)
(* A recorded history is linearizable iff this specification has a         *)
(* behaviour that consumes it completely; TLC searches the placements of   *)
(* the Lin steps.  Merge and Clear are single Lin steps, so a history in   *)
(* which a reader saw half of a Merge has no such behaviour.               *)
(*                                                                         *)
(* One TLC run handles a whole file of histories: Finish moves on after a  *)
(* fully consumed history (printing LIN-OK), Skip abandons a history from  *)
(* any state, so an unlinearizable history does not block the others.      *)
(***************************************************************************)
EXTENDS StoreSem, Json, IOUtils

Trace == ndJsonDeserialize(IOEnv.TRACE)

VARIABLES i,      \* current history (line of the file)
          l,      \* next event of the current history
          st,     \* the sequential store
          pend    \* pend[g]: the pending operation of goroutine g

vars == <<i, l, st, pend>>

H == Trace[i].h
NoOp == [some |-> FALSE]

Init == i = 1 /\ l = 1 /\ st = EmptyStore /\ pend = <<>>

Goroutines == DOMAIN pend
Upd(f, g, v) == [x \in (DOMAIN f) \cup {g} |-> IF x = g THEN v ELSE f[x]]

\* consume a call event
Call ==
  /\ i <= Len(Trace) /\ l <= Len(H) /\ H[l].ev = "call"
  /\ pend' = Upd(pend, H[l].g, [some |-> TRUE, lin |-> FALSE, o |-> H[l], res |-> NoRes])
  /\ l' = l + 1
  /\ UNCHANGED <<i, st>>

\* the linearization point of a pending operation (not in the trace)
Lin(g) ==
  /\ pend[g].some /\ ~pend[g].lin
  /\ LET r == Apply(st, pend[g].o) IN
       /\ st' = r.st
       /\ pend' = [pend EXCEPT ![g] = [@ EXCEPT !.lin = TRUE, !.res = r.res]]
  /\ UNCHANGED <<i, l>>

\* consume a ret event: the operation must have taken effect, with exactly this result
Ret ==
  /\ i <= Len(Trace) /\ l <= Len(H) /\ H[l].ev = "ret"
  /\ LET g == H[l].g IN
       /\ g \in DOMAIN pend /\ pend[g].some /\ pend[g].lin
       /\ pend[g].res = H[l].res
       /\ pend' = [pend EXCEPT ![g] = NoOp]
  /\ l' = l + 1
  /\ UNCHANGED <<i, st>>

Fresh == /\ i' = i + 1 /\ l' = 1 /\ st' = EmptyStore /\ pend' = <<>>

\* the history was consumed completely: it is linearizable
Finish ==
  /\ i <= Len(Trace) /\ l > Len(H)
  /\ PrintT(<<"LIN-OK", Trace[i].scn>>)
  /\ Fresh
\* give up on the current history (keeps the rest of the file reachable)
Skip ==
  /\ i <= Len(Trace) /\ l <= Len(H)
  /\ Fresh

Next == Call \/ Ret \/ Finish \/ Skip \/ \E g \in DOMAIN pend : Lin(g)
Spec == Init /\ [][Next]_vars
=============================================================================
