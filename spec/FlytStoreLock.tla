---------------------------- MODULE FlytStoreLock ----------------------------
(***************************************************************************)
(* Lock-level model of flyt.SharedStore: every method holds the RWMutex    *)
(* for its whole body (flyt.go:71-161); the bodies of Merge, GetAll, Keys  *)
(* iterate over a map, one key per step.  TLC checks that this refines the *)
(* atomic store of StoreSem: readers only ever see states of the atomic    *)
(* store (no half-merged, no half-cleared state), and whenever no writer   *)
(* holds the lock the concrete map equals the abstract one.                *)
(*                                                                         *)
(* PerKeyMerge = TRUE models the variant in which Merge takes the lock per *)
(* key: TLC then finds a reader observing half of a Merge (used as a       *)
(* negative control by the self-test).                                     *)
(***************************************************************************)
EXTENDS StoreSem

CONSTANTS Procs, KeySet, PerKeyMerge

VARIABLES data,    \* the concrete map
          abs,     \* the abstract (atomic) store: updated once per write operation
          lock,    \* [w: writer inside, r: number of readers inside]
          pc,      \* pc[p]: "idle" | "wlocked" | "rlocked"
          op,      \* op[p]: the operation p is executing
          todo,    \* todo[p]: keys still to be processed by an iterating body
          acc,     \* acc[p]: what an iterating reader has collected so far
          seen     \* seen[p]: the abstract store at the moment p took the read lock

lvars == <<data, abs, lock, pc, op, todo, acc, seen>>

MergeMaps == {<< <<1, 7>>, <<2, 7>> >>, << <<1, 8>> >>}
WOps == {[op |-> "set", k |-> k, v |-> v, m |-> <<>>, d |-> 0] : k \in KeySet, v \in {0, 5}}
        \cup {[op |-> "delete", k |-> k, v |-> 0, m |-> <<>>, d |-> 0] : k \in KeySet}
        \cup {[op |-> "clear", k |-> 0, v |-> 0, m |-> <<>>, d |-> 0]}
        \cup {[op |-> "merge", k |-> 0, v |-> 0, m |-> m, d |-> 0] : m \in MergeMaps}
ROps == {[op |-> o, k |-> k, v |-> 0, m |-> <<>>, d |-> 0] : o \in {"get", "has"}, k \in KeySet}
        \cup {[op |-> o, k |-> 0, v |-> 0, m |-> <<>>, d |-> 0] : o \in {"len", "getall", "keys"}}

NoneOp == [op |-> "none"]

LInit == /\ data = EmptyStore /\ abs = EmptyStore
         /\ lock = [w |-> FALSE, r |-> 0]
         /\ pc = [p \in Procs |-> "idle"]
         /\ op = [p \in Procs |-> [op |-> "none"]]
         /\ todo = [p \in Procs |-> <<>>]
         /\ acc = [p \in Procs |-> EmptyStore]
         /\ seen = [p \in Procs |-> EmptyStore]

\* mu.Lock(): no reader, no writer
WLock(p, o) ==
  /\ pc[p] = "idle" /\ ~lock.w /\ lock.r = 0
  /\ lock' = [lock EXCEPT !.w = TRUE]
  /\ pc' = [pc EXCEPT ![p] = "wlocked"]
  /\ op' = [op EXCEPT ![p] = o]
  /\ todo' = [todo EXCEPT ![p] = IF o.op = "merge" THEN o.m ELSE <<>>]
  \* the abstract store changes once, atomically, when the whole-body lock is taken
  /\ abs' = Apply(abs, o).st
  /\ UNCHANGED <<data, acc, seen>>

\* one iteration of Merge's loop
MergeStep(p) ==
  /\ pc[p] = "wlocked" /\ op[p].op = "merge" /\ todo[p] # <<>>
  /\ data' = Put(data, Head(todo[p])[1], Head(todo[p])[2])
  /\ todo' = [todo EXCEPT ![p] = Tail(@)]
  /\ (IF PerKeyMerge
        THEN \* variant: the lock is released and re-taken between keys
             /\ lock' = [lock EXCEPT !.w = FALSE]
             /\ pc' = [pc EXCEPT ![p] = IF Tail(todo[p]) = <<>> THEN "idle" ELSE "relock"]
             /\ op' = [op EXCEPT ![p] = IF Tail(todo[p]) = <<>> THEN NoneOp ELSE @]
        ELSE UNCHANGED <<lock, pc, op>>)
  /\ UNCHANGED <<abs, acc, seen>>
Relock(p) ==
  /\ pc[p] = "relock" /\ ~lock.w /\ lock.r = 0
  /\ lock' = [lock EXCEPT !.w = TRUE]
  /\ pc' = [pc EXCEPT ![p] = "wlocked"]
  /\ UNCHANGED <<data, abs, op, todo, acc, seen>>

\* the body of the other writers is one step; then mu.Unlock()
WUnlock(p) ==
  /\ pc[p] = "wlocked" /\ todo[p] = <<>>
  /\ data' = IF op[p].op = "merge" THEN data ELSE Apply(data, op[p]).st
  /\ lock' = [lock EXCEPT !.w = FALSE]
  /\ pc' = [pc EXCEPT ![p] = "idle"]
  /\ op' = [op EXCEPT ![p] = NoneOp]
  /\ UNCHANGED <<abs, todo, acc, seen>>

\* mu.RLock(): no writer
RLock(p, o) ==
  /\ pc[p] = "idle" /\ ~lock.w
  /\ lock' = [lock EXCEPT !.r = @ + 1]
  /\ pc' = [pc EXCEPT ![p] = "rlocked"]
  /\ op' = [op EXCEPT ![p] = o]
  /\ todo' = [todo EXCEPT ![p] = IF o.op \in {"getall", "keys"} THEN SortedSeq(DOMAIN data) ELSE <<>>]
  /\ acc' = [acc EXCEPT ![p] = EmptyStore]
  /\ seen' = [seen EXCEPT ![p] = abs]
  /\ UNCHANGED <<data, abs>>

\* one iteration of GetAll / Keys: copy one entry
CopyStep(p) ==
  /\ pc[p] = "rlocked" /\ todo[p] # <<>>
  /\ acc' = [acc EXCEPT ![p] = IF Head(todo[p]) \in DOMAIN data THEN Put(@, Head(todo[p]), data[Head(todo[p])]) ELSE @]
  /\ todo' = [todo EXCEPT ![p] = Tail(@)]
  /\ UNCHANGED <<data, abs, lock, pc, op, seen>>

\* what the reader returns
ReaderResult(p) ==
  IF op[p].op \in {"getall", "keys"} THEN Apply(acc[p], op[p]).res ELSE Apply(data, op[p]).res

RUnlock(p) ==
  /\ pc[p] = "rlocked" /\ todo[p] = <<>>
  /\ lock' = [lock EXCEPT !.r = @ - 1]
  /\ pc' = [pc EXCEPT ![p] = "idle"]
  /\ op' = [op EXCEPT ![p] = NoneOp]
  /\ acc' = [acc EXCEPT ![p] = EmptyStore]
  /\ seen' = [seen EXCEPT ![p] = EmptyStore]
  /\ UNCHANGED <<data, abs, todo>>

LNext == \E p \in Procs :
            \/ \E o \in WOps : WLock(p, o)
            \/ \E o \in ROps : RLock(p, o)
            \/ MergeStep(p) \/ Relock(p) \/ WUnlock(p) \/ CopyStep(p) \/ RUnlock(p)
LSpec == LInit /\ [][LNext]_lvars

LockOK == lock.r >= 0 /\ (lock.w => lock.r = 0)
WritersExclusive == Cardinality({p \in Procs : pc[p] = "wlocked"}) <= 1
\* whenever no writer is inside, the concrete map is the abstract store
QuiescentAgree == ~lock.w => data = abs
\* a reader that is about to return returns what the atomic store would have answered at its RLock
ReadersSeeAtomicState ==
  \A p \in Procs : (pc[p] = "rlocked" /\ todo[p] = <<>>) => ReaderResult(p) = Apply(seen[p], op[p]).res
=============================================================================
