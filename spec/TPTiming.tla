------------------------------ MODULE TPTiming ------------------------------
EXTENDS Integers, Sequences, FiniteSets, TLC, Json, IOUtils
P == INSTANCE PropsTiming
Trace == ndJsonDeserialize(IOEnv.TRACE)
Props == IOEnv.PROPS
VARIABLES i, stats
vars == <<i, stats>>
Init == i = 1 /\ stats = [scenarios |-> 0, events |-> 0, waits |-> 0, cancels |-> 0, upper |-> 0]
Next ==
  /\ i <= Len(Trace)
  /\ i' = i + 1
  /\ \E c \in {Trace[i]} : \E bad \in {IF Props = "C02" THEN P!Failing(P!C02T_Clauses(c.cfg, c.h))
                                         ELSE IF Props = "C05" THEN P!Failing(P!C05T_Clauses(c.cfg, c.h))
                                         ELSE IF Props = "C07" THEN P!Failing(P!C07T_Clauses(c.cfg, c.h))
                                         ELSE P!Failing(P!C20_Clauses(c.cfg, c.h))} :
        /\ (bad # {} => PrintT(<<"FAIL", c.scn, Props, bad>>))
        /\ stats' = [scenarios |-> stats.scenarios + 1, events |-> stats.events + Len(c.h),
                     waits |-> stats.waits + Cardinality({j \in 1..Len(c.h) : c.h[j].ev = "exec" /\ c.h[j].k > 1}),
                     cancels |-> stats.cancels + (IF \E j \in 1..Len(c.h) : c.h[j].ev = "cancel" THEN 1 ELSE 0),
                     upper |-> stats.upper + (IF c.cfg.upper THEN 1 ELSE 0)]
  /\ (i = Len(Trace) => PrintT(<<"SUMMARY", stats'>>))
Spec == Init /\ [][Next]_vars
Consumed == TLCGet("stats").diameter - 1 = Len(Trace)
=============================================================================
