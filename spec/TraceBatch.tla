------------------------------ MODULE TraceBatch ------------------------------
(***************************************************************************)
(* Trace validation of recorded batch histories against FlytBatch (code -> *)
(* spec): every logged event (bprep, execin, execout, fb, bpost, runcall,  *)
(* runret) must be produced by the corresponding action with exactly the   *)
(* logged fields - including the worker (goroutine) that produced it and   *)
(* the slots post received; queueing, pickup, stop-flag checks, context    *)
(* checks, recording and the WaitGroup are not logged and are inferred by  *)
(* TLC as silent steps.                                                    *)
(***************************************************************************)
EXTENDS FlytBatch, Json, IOUtils

Trace == ndJsonDeserialize(IOEnv.TRACE)
VARIABLES i, l
tvars == <<cfg, main, queue, nxt, wk, wg, stop, ctx, slots, ret, h, i, l>>

H == Trace[i].h
Ev == H[l]
Loaded == i <= Len(Trace)
More == Loaded /\ l <= Len(H)

\* the specification's configuration from the logged one (sets instead of lists; never gated)
CfgOf(c) == [n |-> c.n, c |-> c.c, stopmode |-> c.stopmode, N |-> c.N, w |-> c.w, fb |-> c.fb, ctx0 |-> c.ctx0, cancel |-> TRUE,
             outs |-> {"ok", "err", "eres"}, acts |-> {0, 1, 2}, preperr |-> TRUE, posterr |-> TRUE, gated |-> FALSE, strict |-> FALSE,
             after |-> "after" \in DOMAIN c /\ c.after]
Empty == [n |-> 0, c |-> 0, stopmode |-> FALSE, N |-> 1, w |-> 0, fb |-> FALSE, ctx0 |-> FALSE, cancel |-> FALSE,
          outs |-> {}, acts |-> {}, preperr |-> FALSE, posterr |-> FALSE, gated |-> FALSE, strict |-> FALSE, after |-> FALSE]

TInit == /\ i = 1 /\ l = 1
         /\ IF Len(Trace) >= 1 THEN InitWith(CfgOf(Trace[1].cfg)) ELSE InitWith(Empty)

\* the events appended by the step are exactly the next logged ones
Matches1 == h' = Append(h, Ev)
Matches2 == l + 1 <= Len(H) /\ h' = h \o <<H[l], H[l + 1]>>

Observable ==
  /\ More /\ i' = i
  /\ \/ Ev.ev = "runcall" /\ Start /\ Matches1 /\ l' = l + 1
     \/ Ev.ev = "bprep" /\ Ev.out = "ok" /\ Prep("ok") /\ Matches1 /\ l' = l + 1
     \/ Ev.ev = "bprep" /\ Ev.out = "err" /\ Prep("err") /\ Matches2 /\ l' = l + 2
     \/ Ev.ev = "execin" /\ (\E w \in Workers : PEnter(w)) /\ Matches1 /\ l' = l + 1
     \/ Ev.ev = "execout" /\ (\E w \in Workers : PExecOut(w, [out |-> Ev.out, cancel |-> Ev.cancel])) /\ Matches1 /\ l' = l + 1
     \/ Ev.ev = "fb" /\ (\E w \in Workers : PFb(w, [out |-> Ev.out, cancel |-> Ev.cancel])) /\ Matches1 /\ l' = l + 1
     \/ Ev.ev = "bpost" /\ Post([out |-> Ev.out, act |-> Ev.act, cancel |-> Ev.cancel]) /\ Matches2 /\ l' = l + 2
     \/ Ev.ev = "bpostagain" /\ LookAgain /\ Matches1 /\ l' = l + 1

SilentW(w) == PLoop(w) \/ PWaitElapsed(w) \/ PWaitCancelled(w) \/ PAfter(w) \/ Pickup(w) \/ StopCheck(w) \/ CtxCheck(w) \/ Record(w)
SilentMain == Submit \/ SubmitDone \/ WaitRet \/ SeqTop \/ SeqRecord
Silent == Loaded /\ (SilentMain \/ \E w \in Workers : SilentW(w)) /\ UNCHANGED <<i, l>>

Fresh == /\ i' = i + 1 /\ l' = 1
         /\ LET c == IF i + 1 <= Len(Trace) THEN CfgOf(Trace[i + 1].cfg) ELSE Empty IN
            /\ cfg' = c /\ main' = [pc |-> "start"] /\ queue' = <<>> /\ nxt' = 1
            /\ wk' = [w \in (IF c.c > 0 THEN 1..c.c ELSE {0}) |-> Idle]
            /\ wg' = 0 /\ stop' = FALSE /\ ctx' = IF c.ctx0 THEN "done" ELSE "live"
            /\ slots' = [x \in 1..c.n |-> Unset] /\ ret' = [some |-> FALSE] /\ h' = <<>>

Accept == /\ Loaded /\ l > Len(H) /\ main.pc = "done"
          /\ PrintT(<<"TRACE-OK", Trace[i].scn>>)
          /\ Fresh
Skip   == More /\ Fresh

TNext == Observable \/ Silent \/ Accept \/ Skip
TSpec == TInit /\ [][TNext]_tvars
=============================================================================
