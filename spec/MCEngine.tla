------------------------------ MODULE MCEngine ------------------------------
(***************************************************************************)
(* Bounded model-checking front-end for FlytEngine: chooses the scenario   *)
(* configuration from a finite family, checks the property predicates of   *)
(* PropsEngine on every complete behaviour, and exports every complete     *)
(* behaviour as a scenario (configuration + expected history) for the Go   *)
(* harness to replay on the real library.                                  *)
(***************************************************************************)
EXTENDS FlytEngine, Json

CONSTANTS Family,     \* name of the configuration family (see Cfgs)
          MaxN,       \* largest retry budget
          MaxVisits,  \* bound on leaf visits per scenario (cycles!)
          DoExport    \* TRUE: print every terminal behaviour as a scenario

P == INSTANCE PropsEngine

NoSty == <<"-", "-", "-">>
Leaf(retry, fb, n)        == [kind |-> "leaf", retry |-> retry, fb |-> fb, func |-> FALSE, sty |-> NoSty, N |-> n, w |-> 0, start |-> 0]
Func(fb, n, sty)          == [kind |-> "leaf", retry |-> TRUE,  fb |-> fb, func |-> TRUE,  sty |-> sty,   N |-> n, w |-> 0, start |-> 0]
BLeaf(n)                  == [kind |-> "bleaf", retry |-> TRUE, fb |-> FALSE, func |-> FALSE, sty |-> NoSty, N |-> n, w |-> 0, start |-> 0]
FlowNode(start)           == [kind |-> "flow", retry |-> TRUE,  fb |-> FALSE, func |-> FALSE, sty |-> NoSty, N |-> 1, w |-> 0, start |-> start]
Styles == {<<a, b, c>> : a \in {"r", "a"}, b \in {"r", "a"}, c \in {"r", "a"}}

LeafKinds == {Leaf(TRUE, f, n) : f \in BOOLEAN, n \in 1..MaxN} \cup {Leaf(FALSE, f, 1) : f \in BOOLEAN}
FuncKinds == {Func(f, n, s) : f \in BOOLEAN, n \in 1..MaxN, s \in Styles}

Base == [nodes |-> <<>>, top |-> 1, conns |-> << <<>> >>, ctx0 |-> <<FALSE>>, runs |-> 1,
         acts |-> {0, 1, 2}, outs |-> {"ok", "err"}, cancel |-> FALSE, nilstart |-> FALSE, flowretry |-> FALSE, zerobudget |-> FALSE]

\* ---- one node run on its own -------------------------------------------
SingleCfgs    == {[Base EXCEPT !.nodes = <<k>>] : k \in LeafKinds \cup FuncKinds}
SingleEresCfgs== {[Base EXCEPT !.nodes = <<k>>, !.outs = {"ok", "err", "eres"}, !.acts = {1}] : k \in {x \in FuncKinds : x.sty[2] = "r" /\ x.N <= 2}}
\* the same node object run twice: nothing of the first run may leak into the second
SingleRerunCfgs == {[Base EXCEPT !.nodes = <<k>>, !.outs = {"ok", "err", "eres"}, !.acts = {1}, !.runs = 2, !.conns = << <<>>, <<>> >>, !.ctx0 = <<FALSE, FALSE>>] :
                       k \in {x \in FuncKinds : x.N = 1 /\ x.sty[1] = "r"} \cup {Leaf(TRUE, TRUE, 1)}}
SingleNilCfgs == {[Base EXCEPT !.nodes = <<k>>, !.outs = {"ok", "err", "nil"}, !.acts = {1}] :
                     k \in {x \in LeafKinds \cup FuncKinds : x.N <= 2}}
SingleCancelCfgs == {[Base EXCEPT !.nodes = <<k>>, !.cancel = TRUE, !.acts = {1}, !.ctx0 = <<c0>>] :
                     k \in {x \in LeafKinds : x.N <= 2} \cup {Func(f, 2, <<"r", "r", "r">>) : f \in BOOLEAN}, c0 \in BOOLEAN}

\* a retry wait between the attempts, with cancellation from inside a callback or from outside during the wait
SingleWaitCfgs == {[Base EXCEPT !.nodes = <<[k EXCEPT !.w = 1]>>, !.cancel = TRUE, !.acts = {1}, !.ctx0 = <<FALSE>>] :
                     k \in {x \in LeafKinds : x.retry /\ x.N >= 2} \cup {Func(f, 2, <<"r", "r", "r">>) : f \in BOOLEAN}}

\* ---- flat flows: every table over two leaves and two actions --------------
Targets2 == {-1, 0, 1, 2}                       \* -1: not connected, 0: nil
ConnSeq(f, pairs, tg) ==                        \* canonical Connect order; pairs is a sequence of <<from, act>>
  LET RECURSIVE F(_)
      F(i) == IF i > Len(pairs) THEN <<>>
              ELSE (IF tg[i] = -1 THEN <<>> ELSE <<[flow |-> f, from |-> pairs[i][1], act |-> pairs[i][2], to |-> tg[i]]>>) \o F(i + 1)
  IN F(1)
Pairs2 == << <<1, 1>>, <<1, 2>>, <<2, 1>>, <<2, 2>> >>
Flow2Cfgs ==
  {[Base EXCEPT !.nodes = <<Leaf(TRUE, FALSE, 1), Leaf(FALSE, FALSE, 1), FlowNode(1)>>, !.top = 3,
                !.conns = <<ConnSeq(3, Pairs2, tg)>>, !.acts = {1, 2}, !.outs = {"ok"}] :
      tg \in [1..4 -> Targets2]}
\* the empty action as a routed step (C18): post may return "" (0), which must route as default (1)
Flow2EmptyCfgs ==
  {[Base EXCEPT !.nodes = <<Leaf(TRUE, FALSE, 1), Func(FALSE, 1, <<"r", "a", "r">>), FlowNode(1)>>, !.top = 3,
                !.conns = <<ConnSeq(3, Pairs2, tg)>>, !.acts = {0, 1, 2}, !.outs = {"ok"}] :
      tg \in {t \in [1..4 -> Targets2] : t[2] = -1 /\ t[4] \in {-1, 0}}}
\* connections on the empty action are table entries of their own (no run follows them: "" is reported as the default
\* action), next to connections on the default action
EmptyConnCfgs ==
  {[Base EXCEPT !.nodes = <<Leaf(TRUE, FALSE, 1), Leaf(FALSE, FALSE, 1), FlowNode(1)>>, !.top = 3,
                !.conns = <<ConnSeq(3, << <<1, 1>>, <<1, 0>>, <<1, 1>>, <<2, 0>> >>, tg)>>, !.acts = {0, 1}, !.outs = {"ok"}] :
      tg \in [1..4 -> {-1, 0, 1, 2}]}
\* a flow that contains itself: a step of flow 3 (never its start) is flow 3 again - one frame per level on the call stack
\* of the specification, local variables of Flow.Exec in the code; the recursion ends when a later visit's action leads
\* elsewhere (every level visits leaf 1 first, so the visit bound cuts the exploration)
SelfNestCfgs ==
  {[Base EXCEPT !.nodes = <<Leaf(TRUE, FALSE, 1), Leaf(FALSE, FALSE, 1), FlowNode(1)>>, !.top = 3,
                !.conns = <<ConnSeq(3, << <<1, 1>>, <<1, 2>>, <<2, 1>>, <<3, 1>>, <<3, 2>> >>, tg)>>, !.acts = {1, 2}, !.outs = {"ok"}] :
      tg \in {t \in [1..5 -> {-1, 1, 2, 3}] : \E i \in 1..3 : t[i] = 3}}
\* errors anywhere on the path (C04): budgets and fallbacks on the path
FlowErrCfgs ==
  {[Base EXCEPT !.nodes = <<Leaf(TRUE, TRUE, 2), Leaf(FALSE, FALSE, 1), FlowNode(1)>>, !.top = 3,
                !.conns = <<ConnSeq(3, Pairs2, tg)>>, !.acts = {1, 2}, !.outs = {"ok", "err"}] :
      tg \in {t \in [1..4 -> Targets2] : t[2] \in {-1, 1} /\ t[4] = -1 /\ t[3] \in {-1, 0, 1}}}
\* cancellation anywhere on the path (C05)
FlowCancelCfgs ==
  {[Base EXCEPT !.nodes = <<Leaf(TRUE, TRUE, 2), Leaf(FALSE, FALSE, 1), FlowNode(1)>>, !.top = 3,
                !.conns = <<ConnSeq(3, Pairs2, tg)>>, !.acts = {1}, !.outs = {"ok", "err"}, !.cancel = TRUE, !.ctx0 = <<c0>>] :
      tg \in {t \in [1..4 -> Targets2] : t[1] \in {-1, 2} /\ t[2] = -1 /\ t[4] = -1 /\ t[3] \in {-1, 1}}, c0 \in BOOLEAN}
\* a batch node as a step of a flow, with failures and cancellation anywhere (C04, C05, C18)
Pairs3 == << <<1, 1>>, <<2, 1>>, <<3, 1>> >>
FlowBatchCfgs ==
  {[Base EXCEPT !.nodes = <<Leaf(TRUE, FALSE, 2), BLeaf(2), Leaf(FALSE, FALSE, 1), FlowNode(s)>>, !.top = 4,
                !.conns = <<ConnSeq(4, Pairs3, tg)>>, !.acts = {0, 1}, !.outs = {"ok", "err"}, !.cancel = c, !.ctx0 = <<c0>>] :
      s \in {1, 2}, tg \in {t \in [1..3 -> {-1, 0, 1, 2, 3}] : t[1] \in {-1, 2} /\ t[2] \in {-1, 3} /\ t[3] \in {-1, 0}},
      c \in BOOLEAN, c0 \in BOOLEAN}

\* a flow made of batch nodes only, with loops in its table, cancelled from inside an item (C11 through a flow)
BatchLoopCfgs ==
  {[Base EXCEPT !.nodes = <<BLeaf(2), BLeaf(1), FlowNode(1)>>, !.top = 3,
                !.conns = <<ConnSeq(3, << <<1, 1>>, <<1, 2>>, <<2, 1>> >>, tg)>>, !.acts = {1, 2}, !.outs = {"ok", "err"}, !.cancel = TRUE, !.ctx0 = <<c0>>] :
      tg \in {t \in [1..3 -> {-1, 1, 2}] : t[1] \in {1, 2} /\ t[2] \in {-1, 1}}, c0 \in BOOLEAN}

\* overwriting Connects, a second run of the same flow object, re-connection between the runs
RerunCfgs ==
  {[Base EXCEPT !.nodes = <<Leaf(TRUE, FALSE, 1), Leaf(FALSE, FALSE, 1), FlowNode(1)>>, !.top = 3,
                !.conns = <<ConnSeq(3, << <<1, 1>>, <<1, 1>>, <<2, 1>> >>, t1), ConnSeq(3, << <<1, 1>>, <<2, 1>> >>, t2)>>,
                !.ctx0 = <<FALSE, FALSE>>, !.runs = 2, !.acts = {1}, !.outs = {"ok"}] :
      t1 \in [1..3 -> Targets2], t2 \in [1..2 -> Targets2]}

\* ---- nesting: an inner flow (4) over leaves 1,2 used as a node of the outer flow (5) with leaf 3
PairsIn  == << <<1, 1>>, <<1, 2>>, <<2, 1>> >>
PairsOut == << <<4, 1>>, <<4, 2>>, <<3, 1>> >>
TargetsOut == {-1, 0, 3, 4}
NestCfgs ==
  {[Base EXCEPT !.nodes = <<Leaf(TRUE, FALSE, 1), Leaf(FALSE, FALSE, 1), Leaf(TRUE, TRUE, 1), FlowNode(1), FlowNode(s)>>, !.top = 5,
                !.conns = <<ConnSeq(4, PairsIn, ti) \o ConnSeq(5, PairsOut, to)>>, !.acts = {1, 2}, !.outs = {"ok"}] :
      ti \in [1..3 -> Targets2], to \in [1..3 -> TargetsOut], s \in {4, 3}}
NestSmallCfgs == {c \in NestCfgs : \A i \in 1..Len(c.conns[1]) : c.conns[1][i].act = 1}
NestErrCfgs ==
  {[Base EXCEPT !.nodes = <<Leaf(TRUE, FALSE, 1), Leaf(FALSE, FALSE, 1), Leaf(TRUE, TRUE, 1), FlowNode(1), FlowNode(4)>>, !.top = 5,
                !.conns = <<ConnSeq(4, PairsIn, ti) \o ConnSeq(5, PairsOut, to)>>, !.acts = {1}, !.outs = {"ok", "err"}] :
      ti \in {t \in [1..3 -> Targets2] : t[2] = -1}, to \in {t \in [1..3 -> TargetsOut] : t[2] = -1}}
\* depth 3: flow 6 contains flow 5 contains flow 4
Nest3Cfgs ==
  {[Base EXCEPT !.nodes = <<Leaf(TRUE, FALSE, 1), Leaf(FALSE, FALSE, 1), Leaf(TRUE, TRUE, 1), FlowNode(1), FlowNode(4), FlowNode(5)>>, !.top = 6,
                !.conns = <<ConnSeq(4, << <<1, 1>>, <<1, 2>> >>, ti) \o ConnSeq(5, << <<4, 1>>, <<4, 2>> >>, tm) \o ConnSeq(6, << <<5, 1>>, <<5, 2>>, <<3, 1>> >>, to)>>,
                !.acts = {1, 2}, !.outs = {"ok"}] :
      ti \in [1..2 -> {-1, 0, 2}], tm \in [1..2 -> {-1, 0, 3}], to \in [1..3 -> {-1, 0, 3, 5}]}
\* a flow with a retry budget of its own (2): a failing pass over its nodes is repeated from the start node
FlowRetryCfgs == {[Base EXCEPT !.nodes = <<Leaf(TRUE, f, 1), Leaf(FALSE, FALSE, 1), [FlowNode(1) EXCEPT !.N = 2], FlowNode(s)>>, !.top = 4,
                   !.conns = <<ConnSeq(3, << <<1, 1>>, <<2, 1>> >>, t) \o ConnSeq(4, << <<3, 1>> >>, <<u>>)>>, !.acts = {1}, !.outs = {"ok", "err"}, !.flowretry = TRUE] :
                     f \in BOOLEAN, s \in {3}, t \in [1..2 -> {-1, 0, 2}], u \in {-1, 0}}
\* dynamic wiring: some of the Connect calls are made from inside post callbacks while the flow runs
DynWireCfgs ==
  {[Base EXCEPT !.nodes = <<Leaf(TRUE, FALSE, 1), Leaf(FALSE, FALSE, 1), FlowNode(1)>>, !.top = 3,
                !.conns = <<ConnSeq(3, << <<1, 1>>, <<2, 1>>, <<1, 1>>, <<2, 1>> >>, tg)>>, !.acts = {1}, !.outs = {"ok"}] @@ [dyn |-> TRUE, pre |-> <<k>>] :
      tg \in [1..4 -> {-1, 0, 1, 2}], k \in 0..2}
\* a retry budget below one (WithMaxRetries(0), WithMaxRetries(-1)): the attempt loop never runs, no fallback, post receives nil.
\* Outside every property (they are quantified over budgets >= 1); modelled because the code allows it.
ZeroBudgetCfgs ==
  {[Base EXCEPT !.nodes = <<k>>, !.acts = {1}, !.zerobudget = TRUE] :
      k \in {Leaf(TRUE, f, n) : f \in BOOLEAN, n \in {-1, 0}} \cup {Func(f, 0, s) : f \in BOOLEAN, s \in {<<"r", "r", "r">>, <<"a", "a", "a">>}}}
  \cup {[Base EXCEPT !.nodes = <<Leaf(TRUE, TRUE, 0), Leaf(FALSE, FALSE, 1), [FlowNode(1) EXCEPT !.N = n]>>, !.top = 3,
                  !.conns = <<ConnSeq(3, << <<1, 1>>, <<2, 1>> >>, <<2, 0>>)>>, !.acts = {1}, !.zerobudget = TRUE] : n \in {0, 1}}
\* a flow without a start node
NilStartCfgs == {[Base EXCEPT !.nodes = <<Leaf(TRUE, FALSE, 1), FlowNode(0), FlowNode(s)>>, !.top = 3,
                  !.conns = <<ConnSeq(3, << <<1, 1>>, <<2, 1>> >>, t)>>, !.acts = {1}, !.outs = {"ok"}, !.nilstart = TRUE] :
                    s \in {1, 2}, t \in [1..2 -> {-1, 0, 1, 2}]}

Cfgs == CASE Family = "single"       -> SingleCfgs
          [] Family = "singleeres"   -> SingleEresCfgs
          [] Family = "singlenil"    -> SingleNilCfgs
          [] Family = "singlererun"  -> SingleRerunCfgs
          [] Family = "singlecancel" -> SingleCancelCfgs
          [] Family = "flow2"        -> Flow2Cfgs
          [] Family = "flow2empty"   -> Flow2EmptyCfgs
          [] Family = "flowerr"      -> FlowErrCfgs
          [] Family = "flowcancel"   -> FlowCancelCfgs
          [] Family = "rerun"        -> RerunCfgs
          [] Family = "flowbatch"    -> FlowBatchCfgs
          [] Family = "batchloop"    -> BatchLoopCfgs
          [] Family = "nest"         -> NestCfgs
          [] Family = "nestsmall"    -> NestSmallCfgs
          [] Family = "nesterr"      -> NestErrCfgs
          [] Family = "nest3"        -> Nest3Cfgs
          [] Family = "nilstart"     -> NilStartCfgs
          [] Family = "flowretry"    -> FlowRetryCfgs
          [] Family = "zerobudget"   -> ZeroBudgetCfgs
          [] Family = "dynwire"      -> DynWireCfgs
          [] Family = "emptyconn"    -> EmptyConnCfgs
          [] Family = "selfnest"     -> SelfNestCfgs
          [] Family = "singlewait"   -> SingleWaitCfgs

MCInit == \E c \in Cfgs : InitWith(c)
MCSpec == MCInit /\ [][Next]_vars

\* cycles make runs unbounded: stop exploring behaviours with too many leaf visits
VisitBound == Cardinality({i \in 1..Len(h) : h[i].ev = "prep"}) <= MaxVisits

Terminal == ph = "done"
\* what the code does with a budget below one: no exec attempt and no fallback for that node, and its post (if its prep
\* succeeded) receives nil as the exec result
ZeroBudgetSkipsExec ==
  Terminal => \A i \in 1..Len(h) :
     /\ (h[i].ev \in {"exec", "fb"} => ~(cfg.nodes[h[i].node].retry /\ cfg.nodes[h[i].node].N < 1))
     /\ ((h[i].ev = "post" /\ cfg.nodes[h[i].node].retry /\ cfg.nodes[h[i].node].N < 1) => h[i].exec = 0)
InvC01 == Terminal => P!C01_OK(cfg, h)
InvC02 == Terminal => P!C02_OK(cfg, h)
InvC03 == Terminal => P!C03_OK(cfg, h)
InvC04 == Terminal => P!C04_OK(cfg, h)
InvC05 == Terminal => P!C05_OK(cfg, h)
InvC10 == Terminal => P!C10_OK(cfg, h)
InvC17 == Terminal => P!C17_OK(cfg, h)
InvC18 == Terminal => P!C18_OK(cfg, h)
InvC11E == Terminal => P!C11E_OK(cfg, h)

\* the configuration as JSON-friendly record (sets become sorted lists)
Export == (DoExport /\ Terminal) => PrintT("SCN " \o ToJson([cfg |-> cfg, h |-> h]))
=============================================================================
