------------------------------ MODULE TPStore ------------------------------
(* Verdict front-end of the sequential store family (C14). *)
EXTENDS Integers, Sequences, FiniteSets, TLC, Json, IOUtils
P == INSTANCE PropsStore
Trace == ndJsonDeserialize(IOEnv.TRACE)
Props == IOEnv.PROPS
VARIABLES i, stats
vars == <<i, stats>>
HitKeys == {"snapshots", "mutated", "merges", "clears", "nils", "long"}
Init == /\ i = 1
        /\ stats = [scenarios |-> 0, events |-> 0, hits |-> [k \in HitKeys |-> 0]]
Next ==
  /\ i <= Len(Trace)
  /\ i' = i + 1
  /\ \E c \in {Trace[i]} : \E R \in {P!Replay(c.h)} : \E x \in {P!StoreHits(c.cfg, c.h)} :
       \E bad \in {P!Failing(P!C14_Clauses(c.cfg, R))} :
        /\ (bad # {} => PrintT(<<"FAIL", c.scn, "C14", bad>>) /\ PrintT(<<"INFO", c.scn, "first differing event", R.firstbad>>))
        /\ ((c.hasexp /\ c.exp # c.h) => PrintT(<<"DRIFT", c.scn>>))
        /\ stats' = [scenarios |-> stats.scenarios + 1, events |-> stats.events + Len(c.h),
                     hits |-> [k \in HitKeys |-> stats.hits[k] + (IF x[k] THEN 1 ELSE 0)]]
  /\ (i = Len(Trace) => PrintT(<<"SUMMARY", stats'>>))
Spec == Init /\ [][Next]_vars
Consumed == TLCGet("stats").diameter - 1 = Len(Trace)
=============================================================================
