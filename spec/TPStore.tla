------------------------------ MODULE TPStore ------------------------------
(* Verdict front-end of the sequential store family (C14). *)
EXTENDS Integers, Sequences, FiniteSets, TLC, Json, IOUtils
P == INSTANCE PropsStore
Trace == ndJsonDeserialize(IOEnv.TRACE)
Props == IOEnv.PROPS
VARIABLES i, stats
vars == <<i, stats>>
HitKeys == {"snapshots", "mutated", "merges", "clears", "nils", "long"}
Init == /\ i = 1
        /\ stats = [scenarios |-> 0, events |-> 0, hits |-> [k \in HitKeys |-> 0]]
Next ==
  /\ i <= Len(Trace)
  /\ i' = i + 1
  /\ \E c \in {Trace[i]} : \E R \in {IF c.fam \in {"storestress", "storeagg"} THEN [firstbad |-> 0] ELSE P!Replay(c.h)} :
       \E x \in {IF c.fam \in {"storestress", "storeagg"} THEN [k \in HitKeys |-> FALSE] ELSE P!StoreHits(c.cfg, c.h)} :
       \E bad \in {IF c.fam = "storestress"
                      THEN (IF P!QuiesceOK(c.h[1]) THEN {} ELSE {"quiescentConsistency"})
                      ELSE IF c.fam = "storeagg"
                      \* reads of the aggregate views while one writer alternates Merge(16 keys, one generation) and Clear:
                      \* an atomic read returns nothing or all 16 keys of one generation
                      THEN (IF \A k \in 1..Len(c.h) : (c.h[k].n \in {0, 16} /\ c.h[k].gens <= 1) THEN {} ELSE {"aggregateAtomic"})
                      ELSE IF c.fam = "storeowner"
                      \* the log of the only writer of a set of keys, recorded while other goroutines churn the store:
                      \* linearizability makes it a correct sequential history of the map
                      THEN (IF R.opsok /\ R.clean THEN {} ELSE {"ownerSequential"})
                      ELSE P!Failing(P!C14_Clauses(c.cfg, R))} :
        /\ (bad # {} => PrintT(<<"FAIL", c.scn, Props, bad>>) /\ PrintT(<<"INFO", c.scn, "first differing event", R.firstbad>>))
        /\ ((c.hasexp /\ c.exp # c.h) => PrintT(<<"DRIFT", c.scn>>))
        /\ stats' = [scenarios |-> stats.scenarios + 1, events |-> stats.events + Len(c.h),
                     hits |-> [k \in HitKeys |-> stats.hits[k] + (IF x[k] THEN 1 ELSE 0)]]
  /\ (i = Len(Trace) => PrintT(<<"SUMMARY", stats'>>))
Spec == Init /\ [][Next]_vars
Consumed == TLCGet("stats").diameter - 1 = Len(Trace)
=============================================================================
