------------------------------ MODULE PropsBatch ------------------------------
(***************************************************************************)
(* The batch-family properties (C06, C07, C08, C09, C11 and the batch      *)
(* parts of C02 and C18) as predicates over (cfg, h): a batch scenario     *)
(* configuration and the complete history of its observable events,        *)
(* ordered by the harness's global ticket counter.                         *)
(*                                                                         *)
(* Events: runcall, bprep, execin / execout (entry and exit of the user's  *)
(* exec function, each with the goroutine id gid of the caller), fb,       *)
(* bpost (items and result slots as post received them), runret, and the   *)
(* watchdog events stuck / hang.                                           *)
(*                                                                         *)
(* Tokens are minted per item and attempt: ItemOf(tok) = tok \div 1000.    *)
(***************************************************************************)
EXTENDS Integers, Sequences, FiniteSets, TLC

NIL        == 0
DefaultAct == 1
Range(s)   == {s[i] : i \in 1..Len(s)}
Last(s)    == s[Len(s)]
All(rec)   == \A k \in DOMAIN rec : rec[k]
Failing(rec) == {k \in DOMAIN rec : ~rec[k]}
ItemOf(tok) == tok \div 1000

Idx(n)      == TLCEval([i \in 1..n |-> i])
PosWhere(s, Test(_)) == SelectSeq(Idx(Len(s)), LAMBDA i : Test(s[i]))

IsItemEv(e) == e.ev \in {"execin", "execout", "fb"}

\* ---- digest of a history (computed once per scenario) ----------------------
\* pipeline of item i: its execin / execout / fb events in order, with positions
Pipe(h, i) ==
  LET pos  == PosWhere(h, LAMBDA e : IsItemEv(e) /\ e.item = i)
      evs  == TLCEval([k \in 1..Len(pos) |-> h[pos[k]]])
      ins  == SelectSeq(evs, LAMBDA e : e.ev = "execin")
      outs == SelectSeq(evs, LAMBDA e : e.ev = "execout")
      fbs  == SelectSeq(evs, LAMBDA e : e.ev = "fb")
  IN [pos |-> pos, evs |-> evs, ins |-> ins, outs |-> outs, fbs |-> fbs,
      ran    |-> ins # <<>>,
      \* how the pipeline ended
      okval  |-> IF fbs # <<>> THEN (IF fbs[1].out = "ok" THEN fbs[1].val ELSE -1)
                 ELSE IF outs # <<>> /\ Last(outs).out \in {"ok", "nil"} THEN Last(outs).val ELSE -1,
      fberr  |-> IF fbs # <<>> /\ fbs[1].out = "err" THEN fbs[1].err ELSE 0,
      \* the exec function returned an error Result with a nil error: that Result is the item's outcome
      eres   |-> IF fbs = <<>> /\ outs # <<>> /\ Last(outs).out = "eres" THEN Last(outs).err ELSE 0,
      allfailed |-> outs # <<>> /\ \A k \in 1..Len(outs) : outs[k].out = "err",
      endpos |-> IF pos = <<>> THEN 0 ELSE Last(pos)]

EmptyPipe == [pos |-> <<>>, evs |-> <<>>, ins |-> <<>>, outs |-> <<>>, fbs |-> <<>>, ran |-> FALSE,
              okval |-> -1, fberr |-> 0, eres |-> 0, allfailed |-> FALSE, endpos |-> 0]

Digest(cfg, h) ==
  LET n == cfg.n
      \* items that have any event (for all others the pipeline is empty: big batches stay cheap)
      touched == {h[k].item : k \in {j \in 1..Len(h) : IsItemEv(h[j])}}
      canc == PosWhere(h, LAMBDA e : e.ev \in {"execout", "fb", "bpost", "cancel"} /\ e.cancel)
  IN [h      |-> h,
      calls  |-> SelectSeq(h, LAMBDA e : e.ev = "runcall"),
      preps  |-> SelectSeq(h, LAMBDA e : e.ev = "bprep"),
      posts  |-> SelectSeq(h, LAMBDA e : e.ev = "bpost"),
      postpos|-> PosWhere(h, LAMBDA e : e.ev = "bpost"),
      rets   |-> SelectSeq(h, LAMBDA e : e.ev = "runret"),
      pipes  |-> TLCEval([i \in 1..n |-> IF i \in touched THEN Pipe(h, i) ELSE EmptyPipe]),
      cpos   |-> IF canc = <<>> THEN 0 ELSE canc[1],            \* first cancelling event (0: none)
      ctx0   |-> \E k \in 1..Len(h) : h[k].ev = "runcall" /\ h[k].ctxdone,
      inpos  |-> PosWhere(h, LAMBDA e : e.ev = "execin"),
      startpos |-> PosWhere(h, LAMBDA e : e.ev = "execin" /\ e.k = 1),   \* an item is started
      stuck  |-> \E k \in 1..Len(h) : h[k].ev \in {"stuck", "hang"}]

Cancelled(D) == D.ctx0 \/ D.cpos # 0
PrepOk(D)    == Len(D.preps) = 1 /\ D.preps[1].out = "ok"
HasPost(D)   == Len(D.posts) = 1
Slot(D, i)   == D.posts[1].slots[i]
HasRet(D)    == Len(D.rets) = 1
N(cfg)       == cfg.N

\* the budget/fallback rules of a single item pipeline (the single-node rules of C02)
PipeBudgetOK(cfg, p) ==
  LET m == Len(p.outs) IN
  /\ Len(p.ins) = m
  /\ \A k \in 1..m : p.ins[k].k = k /\ p.outs[k].k = k
  /\ m <= N(cfg)
  /\ \A k \in 1..(m - 1) : p.outs[k].out = "err"
PipeShapeOK(p) ==
  \* in_1 out_1 in_2 out_2 ... fb? : attempts of one item never overlap and stay on one goroutine
  LET e == p.evs IN
  /\ \A k \in 1..Len(e) : (e[k].ev = "execin"  => k < Len(e) /\ e[k+1].ev = "execout" /\ e[k+1].gid = e[k].gid)
  /\ \A k \in 1..Len(e) : (e[k].ev = "execout" => k > 1 /\ e[k-1].ev = "execin")
  /\ \A k \in 1..Len(e) : (e[k].ev = "fb" => k = Len(e) /\ k > 1 /\ e[k-1].ev = "execout" /\ e[k-1].gid = e[k].gid)
PipeFbOK(cfg, p) ==
  LET m == Len(p.outs) IN
  /\ Len(p.fbs) <= 1
  /\ (p.fbs # <<>> => cfg.fb /\ p.allfailed /\ m = N(cfg))
  /\ (p.fbs # <<>> /\ m > 0 =>
        /\ p.fbs[1].arg = p.ins[1].arg /\ p.fbs[1].aid
        /\ p.outs[m].err \in Range(p.fbs[1].errseen)
        /\ \A k \in 1..(m - 1) : p.outs[k].err \notin Range(p.fbs[1].errseen))

\* the lists handed to post belong to that run: a later run of the same node object does not change them
ListsKept(D) == \A k \in 1..Len(D.h) : D.h[k].ev = "bpostagain" =>
                   HasPost(D) /\ D.h[k].slots = D.posts[1].slots /\ D.h[k].items = D.posts[1].items

(* ---------------------------------------------------------------------- *)
(* C06  positional correspondence; post sees all, once                     *)
(* ---------------------------------------------------------------------- *)
C06_Clauses(cfg, D) ==
  [
   postOnce   |-> /\ Len(D.posts) <= 1
                  /\ (PrepOk(D) /\ ~Cancelled(D) => HasPost(D))
                  /\ (~PrepOk(D) => D.posts = <<>>),
   itemsOrder |-> (HasPost(D) /\ PrepOk(D)) => D.posts[1].items = D.preps[1].items,
   sameLen    |-> HasPost(D) => Len(D.posts[1].slots) = Len(D.posts[1].items),
   \* every slot is the outcome of PROCESSING its item: when nothing cuts the batch short, every item - also one that prep
   \* delivered as an error Result or as nil - has been handed to exec
   processed  |-> (HasPost(D) /\ PrepOk(D) /\ ~Cancelled(D) /\ ~cfg.stopmode /\ N(cfg) >= 1) =>
                   \A i \in 1..cfg.n : D.pipes[i].ins # <<>>,
   sameStore  |-> (\A k \in 1..Len(D.preps) : D.preps[k].sok) /\ (\A k \in 1..Len(D.posts) : D.posts[k].sok),
   \* slot i is the outcome of item i ...
   slotOutcome |-> (HasPost(D) /\ Len(D.posts[1].slots) = cfg.n) =>
                   \A i \in 1..cfg.n :
                     LET p == D.pipes[i] s == Slot(D, i) IN
                     /\ (p.okval >= 0 => ~s.iserr /\ s.tok = p.okval)
                     \* (the fallback's outcome REPLACES the attempts' errors: they are not in the slot next to it)
                     /\ (p.fberr # 0 => s.iserr /\ p.fberr \in Range(s.errs)
                                        /\ \A k \in 1..Len(p.outs) : p.outs[k].err \notin Range(s.errs))
                     /\ (p.eres # 0 => s.iserr /\ p.eres \in Range(s.errs))
                     /\ (p.fbs = <<>> /\ p.allfailed => s.iserr)
                     /\ (p.fbs = <<>> /\ p.allfailed /\ Len(p.outs) = N(cfg) /\ ~cfg.fb
                            => Last(p.outs).err \in Range(s.errs)),
   \* ... and of no other item
   noForeign  |-> (HasPost(D) /\ Len(D.posts[1].slots) = cfg.n) =>
                   \A i \in 1..cfg.n :
                     LET s == Slot(D, i) IN
                     /\ (s.tok # 0 => ItemOf(s.tok) = i)
                     /\ \A t \in Range(s.errs) : ItemOf(t) = i,
   \* post runs after every item has been settled
   allSettled |-> HasPost(D) =>
                   /\ \A i \in 1..cfg.n : D.pipes[i].endpos < D.postpos[1]
                   /\ \A i \in 1..cfg.n : Len(D.pipes[i].ins) = Len(D.pipes[i].outs),
   \* the lists handed to post belong to that run: a later run of the same node object does not change them
   listsKept  |-> ListsKept(D),
   \* every exec call received its own item, unchanged
   itemArg    |-> \A i \in 1..cfg.n : \A k \in 1..Len(D.pipes[i].ins) :
                     D.pipes[i].ins[k].arg = 1000 * i /\ D.pipes[i].ins[k].aid
  ]
C06_OK(cfg, h) == All(C06_Clauses(cfg, Digest(cfg, h)))

(* ---------------------------------------------------------------------- *)
(* C07  every item exactly once, own retry budget and fallback             *)
(* ---------------------------------------------------------------------- *)
C07_Clauses(cfg, D) ==
  LET Applies == ~cfg.stopmode /\ ~Cancelled(D) /\ PrepOk(D) IN
  [
   everyItemOnce |-> Applies => \A i \in 1..cfg.n :
                        Cardinality({k \in 1..Len(D.pipes[i].ins) : D.pipes[i].ins[k].k = 1}) = (IF N(cfg) >= 1 THEN 1 ELSE 0),
   pipeShape     |-> Applies => \A i \in 1..cfg.n : PipeShapeOK(D.pipes[i]),
   \* a failing item does not hold up the others: while its fallback is still running, the other workers get every other
   \* item done (the fallback of the `fbhold` schedule waits for exactly that, and says whether it waited in vain)
   \* an exec callback that runs a whole flow of its own (own nodes, own store) gets that flow's behaviour whatever the other
   \* workers are doing at the same time - the harness logs `innerbad` only when it does not
   innerRunsIndependent |-> \A k \in 1..Len(D.h) : D.h[k].ev # "innerbad",
   noHoldUp      |-> \A i \in 1..cfg.n : \A k \in 1..Len(D.pipes[i].fbs) :
                        "stalled" \in DOMAIN D.pipes[i].fbs[k] => ~D.pipes[i].fbs[k].stalled,
   \* (an item's slot keeps holding that item's outcome also after the node object has run again)
   slotKept      |-> ListsKept(D),
   budget        |-> Applies => \A i \in 1..cfg.n :
                        LET p == D.pipes[i] IN
                        /\ PipeBudgetOK(cfg, p)
                        /\ (p.allfailed \/ p.outs = <<>> => Len(p.outs) = N(cfg)),
   fallback      |-> Applies => \A i \in 1..cfg.n :
                        LET p == D.pipes[i] IN
                        /\ PipeFbOK(cfg, p)
                        /\ (cfg.fb /\ p.allfailed /\ Len(p.outs) = N(cfg) => Len(p.fbs) = 1),
   \* the slot holds the error of the item's last attempt, or the fallback's outcome
   slot          |-> (Applies /\ HasPost(D) /\ Len(D.posts[1].slots) = cfg.n) => \A i \in 1..cfg.n :
                        LET p == D.pipes[i] s == Slot(D, i) IN
                        /\ (p.okval >= 0 => ~s.iserr /\ s.tok = p.okval)
                        \* (the fallback's outcome REPLACES the attempts' errors: they are not in the slot next to it)
                     /\ (p.fberr # 0 => s.iserr /\ p.fberr \in Range(s.errs)
                                        /\ \A k \in 1..Len(p.outs) : p.outs[k].err \notin Range(s.errs))
                        /\ (p.eres # 0 => s.iserr /\ p.eres \in Range(s.errs))
                        /\ (p.fbs = <<>> /\ p.allfailed => s.iserr /\ Last(p.outs).err \in Range(s.errs))
  ]
C07_OK(cfg, h) == All(C07_Clauses(cfg, Digest(cfg, h)))

\* the batch part of C02: every item pipeline that ran obeys the single-node budget rules
C02B_Clauses(cfg, D) ==
  LET Applies == ~Cancelled(D) IN
  [
   itemBudget   |-> Applies => \A i \in 1..cfg.n : D.pipes[i].ran =>
                       /\ PipeBudgetOK(cfg, D.pipes[i])
                       /\ (D.pipes[i].allfailed => Len(D.pipes[i].outs) = N(cfg)),
   \* with a budget of at least one every item is attempted (continue mode: nothing may pre-empt an item's attempts)
   everyItemAttempted |-> (Applies /\ ~cfg.stopmode /\ PrepOk(D) /\ N(cfg) >= 1) => \A i \in 1..cfg.n : D.pipes[i].ran,
   itemFallback |-> Applies => \A i \in 1..cfg.n : D.pipes[i].ran =>
                       /\ PipeFbOK(cfg, D.pipes[i])
                       /\ (cfg.fb /\ D.pipes[i].allfailed /\ Len(D.pipes[i].outs) = N(cfg) => Len(D.pipes[i].fbs) = 1)
  ]

(* ---------------------------------------------------------------------- *)
(* C08  the concurrency limit is a hard bound and is fully usable          *)
(* ---------------------------------------------------------------------- *)
\* number of exec calls in flight after the first p events
InFlight(h, p) == Cardinality({k \in 1..p : h[k].ev = "execin"}) - Cardinality({k \in 1..p : h[k].ev = "execout"})
C08_Clauses(cfg, D) ==
  LET bound == IF cfg.c > 0 THEN cfg.c ELSE 1 IN
  [
   \* entry tickets are taken after entering and exit tickets before leaving, so the logged
   \* intervals are contained in the real ones: an overshoot here is an overshoot in reality
   bound      |-> \A k \in 1..Len(D.inpos) : InFlight(D.h, D.inpos[k]) <= bound,
   \* sequential: strictly one at a time, first attempts in item order
   seqOrder   |-> cfg.c = 0 =>
                    LET firsts == SelectSeq(D.h, LAMBDA e : e.ev = "execin" /\ e.k = 1)
                    IN \A k \in 1..(Len(firsts) - 1) : firsts[k].item < firsts[k+1].item,
   \* c executions that all block do run simultaneously (barrier scenarios never get stuck)
   usable     |-> ~D.stuck
  ]
C08_OK(cfg, h) == All(C08_Clauses(cfg, Digest(cfg, h)))

(* ---------------------------------------------------------------------- *)
(* C09  stop-on-error                                                      *)
(* ---------------------------------------------------------------------- *)
\* a pipeline that ended in failure: fallback error, or all budgeted attempts failed without fallback
PipeFailed(cfg, p) == p.fberr # 0 \/ (p.fbs = <<>> /\ p.allfailed /\ Len(p.outs) >= N(cfg))
C09_Clauses(cfg, D) ==
  LET failed == {i \in 1..cfg.n : PipeFailed(cfg, D.pipes[i])}
      \* the failed pipeline that ended first
      first  == CHOOSE i \in failed : \A j \in failed : D.pipes[i].endpos <= D.pipes[j].endpos
      F      == D.pipes[first].endpos
      g      == D.h[F].gid
      StopApplies == cfg.stopmode /\ ~Cancelled(D) /\ failed # {}
  IN [
   \* the worker that observed the failure starts nothing more
   sameWorkerStops |-> StopApplies => \A k \in 1..Len(D.startpos) : (D.startpos[k] > F => D.h[D.startpos[k]].gid # g),
   \* sequential or one worker: nothing at all after the first failure
   nothingAfter    |-> (StopApplies /\ cfg.c <= 1) => \A k \in 1..Len(D.startpos) : D.startpos[k] < F,
   \* ... which means the items positioned after the failing one: with at most one worker the items are taken in list
   \* order, none of those behind the first failing item is executed at all
   noneBehind      |-> (StopApplies /\ cfg.c <= 1) =>
                          LET fmin == CHOOSE i \in failed : \A j \in failed : i <= j
                          IN \A i \in (fmin + 1)..cfg.n : ~D.pipes[i].ran,
   \* gated schedules: every other worker was parked inside exec when the failure was handled,
   \* so no further item may start at all (the parked ones may still finish and retry)
   strictGated     |-> (StopApplies /\ cfg.strict) => \A k \in 1..Len(D.startpos) : D.startpos[k] < F,
   \* a slot is the real outcome of its item or an error: never a success for an item that did not succeed
   noFakeSuccess   |-> (HasPost(D) /\ Len(D.posts[1].slots) = cfg.n) => \A i \in 1..cfg.n :
                          ~Slot(D, i).iserr => D.pipes[i].okval >= 0 /\ Slot(D, i).tok = D.pipes[i].okval
  ]
C09_OK(cfg, h) == All(C09_Clauses(cfg, Digest(cfg, h)))

(* ---------------------------------------------------------------------- *)
(* C11  cancelling a batch                                                 *)
(* ---------------------------------------------------------------------- *)
C11_Clauses(cfg, D) ==
  LET p  == D.cpos
      g0 == IF p # 0 /\ "gid" \in DOMAIN D.h[p] THEN D.h[p].gid ELSE -1
      after == SelectSeq(D.inpos, LAMBDA q : q > p)
      gids  == {D.h[after[k]].gid : k \in 1..Len(after)}
  IN [
   \* context done before the run: nothing was committed, so nothing starts
   doneBefore   |-> D.ctx0 => D.inpos = <<>>,
   \* after a cancellation: nothing new on the worker that cancelled (or any worker that observes it);
   \* at most one already-committed item per other worker
   perWorker    |-> (p # 0 /\ ~D.ctx0) =>
                      /\ \A g \in gids : Cardinality({k \in 1..Len(after) : D.h[after[k]].gid = g}) <= (IF g = g0 THEN 0 ELSE 1)
                      /\ (cfg.c = 0 => after = <<>>),
   \* no new retry attempt: an attempt that ends after the cancellation is the item's last
   noRetry      |-> (p # 0 /\ ~D.ctx0) => \A i \in 1..cfg.n :
                      LET pp == D.pipes[i] IN
                      \A k \in 1..Len(pp.evs) :
                         (pp.evs[k].ev = "execout" /\ pp.pos[k] >= p) => \A k2 \in (k+1)..Len(pp.evs) : pp.evs[k2].ev # "execin",
   \* ... and a retry wait (a long one: 20 ms and more) that the cancellation interrupts is not followed by another attempt
   \* (timing-dependent when timer and cancellation coincide: counts only if it fails again on re-execution)
   noRetryAfterCancelledWait |-> (p # 0 /\ ~D.ctx0 /\ cfg.w >= 20) => \A i \in 1..cfg.n :
                      LET pp == D.pipes[i] IN
                      \A k \in 2..Len(pp.evs) :
                         (pp.evs[k].ev = "execin" /\ pp.evs[k-1].ev = "execout" /\ pp.pos[k-1] < p) => pp.pos[k] < p,
   \* the run terminates
   terminates   |-> HasRet(D) /\ ~D.stuck,
   \* context error, or post once with an error in the slot of every item that was not executed
   outcome      |-> (Cancelled(D) /\ HasRet(D) /\ PrepOk(D)) =>
                      \/ D.rets[1].ctxerr
                      \/ /\ HasPost(D) /\ Len(D.posts[1].slots) = cfg.n
                         /\ \A i \in 1..cfg.n : ~D.pipes[i].ran => Slot(D, i).iserr
  ]
C11_OK(cfg, h) == All(C11_Clauses(cfg, Digest(cfg, h)))

(* ---------------------------------------------------------------------- *)
(* C18 (batch part)  no empty action on success, also for the empty batch  *)
(* ---------------------------------------------------------------------- *)
C18B_Clauses(cfg, D) ==
  [
   nonEmpty  |-> (HasRet(D) /\ ~D.rets[1].iserr) => D.rets[1].act # NIL,
   defaulted |-> (HasRet(D) /\ ~D.rets[1].iserr /\ HasPost(D) /\ D.posts[1].out = "ok") =>
                    D.rets[1].act = (IF D.posts[1].act = NIL THEN DefaultAct ELSE D.posts[1].act),
   \* as a routed step of a flow: the default-connected successor ran
   routed    |-> \A k \in 1..Len(D.h) : D.h[k].ev = "routed" => D.h[k].ok
  ]
C18B_OK(cfg, h) == All(C18B_Clauses(cfg, Digest(cfg, h)))

\* the batch part of C03: a batch node is a step of a flow like any other - the connection on the action it finishes with
\* (the default action when its post answers the empty one) is followed, whatever the number of items
C03B_Clauses(cfg, D) == [batchStepRouted |-> C18B_Clauses(cfg, D).routed]

\* the batch part of C17: the item reaches the exec function unchanged; what the exec function returns - a value or an
\* error Result - is what post finds in the item's slot, never wrapped a second time and never stripped
C17B_Clauses(cfg, D) ==
  LET c == C06_Clauses(cfg, D) IN
  [itemToExec |-> c.itemArg,
   \* every item prep produced - also one that already is an error Result - is handed to the exec function
   everyItemReachesExec |-> (~cfg.stopmode /\ ~Cancelled(D) /\ PrepOk(D) /\ N(cfg) >= 1) => \A i \in 1..cfg.n : D.pipes[i].ran,
   execToSlot |-> c.slotOutcome /\ c.noForeign /\ ListsKept(D)]

\* the batch part of C04: prep and post errors are returned transparently, item errors stay in slots
C04B_Clauses(cfg, D) ==
  [
   prepErr |-> (Len(D.preps) = 1 /\ D.preps[1].out = "err") =>
                  HasRet(D) /\ D.rets[1].iserr /\ D.preps[1].err \in Range(D.rets[1].errs) /\ D.posts = <<>> /\ D.inpos = <<>>,
   postErr |-> (HasPost(D) /\ D.posts[1].out = "err") =>
                  HasRet(D) /\ D.rets[1].iserr /\ D.posts[1].err \in Range(D.rets[1].errs),
   itemErrsStay |-> (HasPost(D) /\ D.posts[1].out = "ok" /\ HasRet(D) /\ ~Cancelled(D)) => ~D.rets[1].iserr
  ]

BatchHits(cfg, D) ==
  [
   concurrent |-> cfg.c > 0,
   retried    |-> \E i \in 1..cfg.n : Len(D.pipes[i].outs) > 1,
   fallback   |-> \E i \in 1..cfg.n : D.pipes[i].fbs # <<>>,
   stopmode   |-> cfg.stopmode,
   failedItem |-> \E i \in 1..cfg.n : PipeFailed(cfg, D.pipes[i]),
   skipped    |-> PrepOk(D) /\ \E i \in 1..cfg.n : ~D.pipes[i].ran,
   cancelled  |-> Cancelled(D),
   emptyBatch |-> cfg.n = 0,
   overlapped |-> \E k \in 1..Len(D.inpos) : InFlight(D.h, D.inpos[k]) > 1
  ]
=============================================================================
