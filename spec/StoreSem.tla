------------------------------ MODULE StoreSem ------------------------------
(***************************************************************************)
(* Sequential semantics of flyt.SharedStore as pure operators: a store is  *)
(* a function from present keys to values (0 = a stored nil); Apply gives  *)
(* the new store and the result of every operation.  Shared by the         *)
(* sequential model (FlytStore), the replay predicate of C14 (PropsStore)  *)
(* and the linearizability search of C13 (FlytStoreConc).                  *)
(***************************************************************************)
EXTENDS Integers, Sequences, FiniteSets, TLC

NilVal == 0            \* a stored nil
\* value tokens: 0 is nil; below 100 tokens = 2 (mod 3) stand for strings, all others for ints; from 100 on for values
\* that cannot be compared with == (slices, maps, structs holding a slice), pointers and the two float zeroes
\* (103: +0.0, 108: -0.0 - distinct values that compare equal)
IsIntTok(v) == v # NilVal /\ v < 100 /\ v % 3 # 2
IsFloatZero(v) == v \in {103, 108}
\* slice values: []any (0 mod 5) and typed []int (4 mod 5, other than the float zeroes' neighbours) from 100 on
\* (120, 121, 122: a typed nil pointer, map and func - values like any other, none of them a slice)
IsSliceTok(v) == v >= 100 /\ v % 5 \in {0, 4} /\ v \notin {120, 121, 122}

SortedSeq(S) ==
  LET RECURSIVE F(_)
      F(T) == IF T = {} THEN <<>>
              ELSE LET m == CHOOSE x \in T : \A y \in T : x <= y
                   IN <<m>> \o F(T \ {m})
  IN F(S)

\* a store is a function whose domain is the set of present keys
EmptyStore == <<>>
Keys(st)   == DOMAIN st
Put(st, k, v) == [x \in (DOMAIN st) \cup {k} |-> IF x = k THEN v ELSE st[x]]
Del(st, k)    == [x \in (DOMAIN st) \ {k} |-> st[x]]
\* contents as a sorted sequence of <<key, value>> pairs (the way histories log maps)
Pairs(st)  == LET ks == SortedSeq(DOMAIN st)
                  RECURSIVE F(_)
                  F(i) == IF i > Len(ks) THEN <<>> ELSE << <<ks[i], st[ks[i]]>> >> \o F(i + 1)
              IN F(1)
\* the store made of a sequence of pairs (later pairs win)
RECURSIVE PutAll(_, _)
PutAll(st, ps) == IF ps = <<>> THEN st ELSE PutAll(Put(st, Head(ps)[1], Head(ps)[2]), Tail(ps))

\* the uniform result record of an operation
NoRes == [ok |-> FALSE, v |-> 0, n |-> 0, keys |-> <<>>, pairs |-> <<>>]

(***************************************************************************)
(* Apply(st, o): o = [op, k, v, m, d]                                       *)
(*   set k v | get k | has k | delete k | len | keys | getall | merge m |   *)
(*   mergenil | clear | getint k d (typed getter: value if present and not  *)
(*   nil, else the default d; plain GetInt is d = 0)                        *)
(***************************************************************************)
Apply(st, o) ==
  CASE o.op = "set"     -> [st |-> Put(st, o.k, o.v), res |-> NoRes]
    [] o.op = "get"     -> [st |-> st, res |-> [NoRes EXCEPT !.ok = o.k \in DOMAIN st, !.v = IF o.k \in DOMAIN st THEN st[o.k] ELSE 0]]
    [] o.op = "has"     -> [st |-> st, res |-> [NoRes EXCEPT !.ok = o.k \in DOMAIN st]]
    [] o.op = "delete"  -> [st |-> Del(st, o.k), res |-> NoRes]
    [] o.op = "len"     -> [st |-> st, res |-> [NoRes EXCEPT !.n = Cardinality(DOMAIN st)]]
    [] o.op = "keys"    -> [st |-> st, res |-> [NoRes EXCEPT !.keys = SortedSeq(DOMAIN st), !.n = Cardinality(DOMAIN st)]]
    [] o.op = "getall"  -> [st |-> st, res |-> [NoRes EXCEPT !.pairs = Pairs(st), !.n = Cardinality(DOMAIN st)]]
    [] o.op = "merge"   -> [st |-> PutAll(st, o.m), res |-> NoRes]
    [] o.op = "mergenil"-> [st |-> st, res |-> NoRes]
    [] o.op = "clear"   -> [st |-> EmptyStore, res |-> NoRes]
    \* typed slice getter: the one element of the stored slice, or nothing
    [] o.op = "getslice"-> [st |-> st, res |-> [NoRes EXCEPT !.ok = o.k \in DOMAIN st /\ IsSliceTok(st[o.k]),
                                                             !.v = IF o.k \in DOMAIN st /\ IsSliceTok(st[o.k]) THEN st[o.k] ELSE 0]]
    [] o.op = "getint"  -> [st |-> st, res |-> [NoRes EXCEPT !.v = IF o.k \in DOMAIN st /\ IsIntTok(st[o.k]) THEN st[o.k]
                                                                  ELSE IF o.k \in DOMAIN st /\ IsFloatZero(st[o.k]) THEN 0   \* the documented float -> int conversion
                                                                  ELSE o.d]]

=============================================================================
