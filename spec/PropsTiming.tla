------------------------------ MODULE PropsTiming ------------------------------
(***************************************************************************)
(* C20 as a predicate over the timed history of a run: exec events with    *)
(* monotonic timestamps (microseconds since the scenario started) taken at *)
(* entry (t0) and exit (t1) of every attempt, the exit of prep, the entry  *)
(* of post / fallback, the instant cancel() was called, and the instant    *)
(* Run returned.  Timestamps are taken inside the callbacks, so            *)
(* t0(k+1) - t1(k) over-approximates the real wait: a correct sleep can    *)
(* never look short.                                                       *)
(***************************************************************************)
EXTENDS Integers, Sequences, FiniteSets, TLC

Failing(rec) == {k \in DOMAIN rec : ~rec[k]}

\* attempts of pipeline p (a node run: p = 0; a batch item: its index), in order
Attempts(h, p) == SelectSeq(h, LAMBDA e : e.ev = "exec" /\ e.p = p)
Pipes(h) == {h[i].p : i \in {j \in 1..Len(h) : h[j].ev = "exec"}}

C20_Clauses(cfg, h) ==
  LET wms  == cfg.w                     \* configured wait in milliseconds
      \* ... in microseconds (scenarios with waits below a millisecond give them in `wus`)
      wus  == IF "wus" \in DOMAIN cfg /\ cfg.wus > 0 THEN cfg.wus ELSE cfg.w * 1000
      rets == SelectSeq(h, LAMBDA e : e.ev = "runret")
      cans == SelectSeq(h, LAMBDA e : e.ev = "cancel")
      preps == SelectSeq(h, LAMBDA e : e.ev = "prep")
      \* the instant the pipeline's successor starts: the next item's first attempt (sequential batch),
      \* else post (for a batch: the instant post received the slots); -1 if there is none
      NextStart(p) == LET nx == SelectSeq(h, LAMBDA e : e.ev = "exec" /\ e.p = p + 1 /\ e.k = 1 /\ p >= 1)
                          po == SelectSeq(h, LAMBDA e : e.ev \in {"post", "slot"} /\ e.p = p)
                      IN IF nx # <<>> THEN nx[1].t0 ELSE IF po # <<>> THEN po[1].t0 ELSE -1
      promptMs == IF wms \div 2 < 10000 THEN wms \div 2 ELSE 10000
  IN [
   \* (T1) at least w elapses between the end of a failed attempt and the start of the next one
   waitHonoured |-> \A p \in Pipes(h) : LET a == Attempts(h, p) IN
                       \A k \in 1..(Len(a) - 1) : (a[k+1].t0 - a[k].t1) >= wus,
   \* (T2) no wait before the first attempt ...
   noWaitBefore |-> cfg.upper => \A p \in Pipes(h) : LET a == Attempts(h, p) IN
                       (preps # <<>> /\ a # <<>> /\ p <= 1) => (a[1].t0 - preps[1].t1) \div 1000 < wms \div 2,
   \* ... nor after the last one
   noWaitAfter  |-> cfg.upper => \A p \in Pipes(h) : LET a == Attempts(h, p) IN
                       /\ (NextStart(p) >= 0 /\ a # <<>>) => (NextStart(p) - a[Len(a)].t1) \div 1000 < wms \div 2
                       /\ (NextStart(p) < 0 /\ a # <<>> /\ rets # <<>>) => (rets[1].t - a[Len(a)].t1) \div 1000 < wms \div 2,
   \* (T3) a cancellation during the wait ends the run promptly, with the context's error, without a further attempt
   promptCancel |-> cans # <<>> =>
                       /\ Len(rets) = 1
                       /\ (rets[1].t - cans[1].t) \div 1000 < promptMs
                       /\ (cfg.n = 0 => rets[1].ctxerr)
                       /\ \A i \in 1..Len(h) : h[i].ev = "exec" => h[i].t0 <= cans[1].t,
   terminated   |-> Len(rets) = 1,
   \* per item inside a batch: an item cut short by the cancellation (its last attempt failed and budget was left) carries
   \* an error matching the context's error in its slot
   itemCtxErr   |-> (cans # <<>> /\ cfg.n > 0 /\ ~cfg.stop) =>
                       LET sl == SelectSeq(h, LAMBDA e : e.ev = "slot") IN
                       sl # <<>> => \A p \in Pipes(h) : LET a == Attempts(h, p) IN
                          (p >= 1 /\ p <= Len(sl[1].kinds) /\ ~a[Len(a)].ok /\ Len(a) < cfg.N) => sl[1].kinds[p] = 1,
   \* the wait ends with the next attempt unless a cancellation ended it: a run whose context was never cancelled
   \* makes every attempt of its budget (stop-on-error batches abandon the siblings of a failed item)
   waitCompletes |-> (cans = <<>> /\ ~cfg.stop) => \A p \in Pipes(h) : LET a == Attempts(h, p) IN
                       a[Len(a)].ok \/ Len(a) = cfg.N
  ]
\* C02 on timed runs: the fallback is invoked only after all N attempts failed - in particular not
\* because a cancellation ended the wait between two attempts
C02T_Clauses(cfg, h) ==
  [ fbOnlyAfterBudget |-> \A i \in 1..Len(h) : h[i].ev = "fb" =>
        LET a == Attempts(h, h[i].p) IN Len(a) = cfg.N /\ \A k \in 1..Len(a) : ~a[k].ok,
    fbAfterBudget     |-> (cfg.fb /\ ~(\E i \in 1..Len(h) : h[i].ev = "cancel") /\ cfg.n = 0) =>
        LET a == Attempts(h, 0) IN (Len(a) = cfg.N /\ \A k \in 1..Len(a) : ~a[k].ok) => \E i \in 1..Len(h) : h[i].ev = "fb" ]

\* C07 on timed runs: every item of a batch gets the retry budget a single node run gets - also under a context that has
\* a deadline which has not expired (an item whose context was never cancelled makes every attempt of its budget or succeeds)
C07T_Clauses(cfg, h) ==
  LET cans == SelectSeq(h, LAMBDA e : e.ev = "cancel")
  IN [ itemBudgetKept |-> (cfg.n > 0 /\ cans = <<>> /\ ~cfg.stop) => \A p \in Pipes(h) : LET a == Attempts(h, p) IN
                              a[Len(a)].ok \/ Len(a) = cfg.N ]

\* C05 on timed runs: a cancellation that arrives from outside while the run waits between attempts
C05T_Clauses(cfg, h) ==
  LET rets == SelectSeq(h, LAMBDA e : e.ev = "runret")
      cans == SelectSeq(h, LAMBDA e : e.ev = "cancel")
  IN [ \* no new attempt after the cancellation
       noNewAttempt |-> cans # <<>> => \A i \in 1..Len(h) : h[i].ev = "exec" => h[i].t0 <= cans[1].t,
       \* the run was cut short: it reports the context's error, not success and not another error
       ctxErr       |-> (cans # <<>> /\ cfg.n = 0) => Len(rets) = 1 /\ rets[1].iserr /\ rets[1].ctxerr ]
=============================================================================
