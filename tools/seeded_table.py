#!/usr/bin/env python3
"""Prints the markdown table of the seeded changes (from seeded/*/meta.json) and, with --write, puts it into DESIGN.md."""
import json, os, sys, glob, re
ROOT = os.path.dirname(os.path.dirname(os.path.abspath(__file__)))
rows = []
for mf in sorted(glob.glob(os.path.join(ROOT, "seeded", "*", "meta.json"))):
    m = json.load(open(mf))
    name = m["name"]
    rd = m.get("needs_to_manifest", "")
    first = ""
    for line in rd.splitlines():
        line = line.strip().lstrip("#").strip()
        if len(line) > 25 and not line.lower().startswith(("mutant", "c0", "c1", "c2")):
            first = line
            break
    first = re.sub(r"[|`]", "", first)[:170]
    valid = m.get("patch_applies") and m.get("existing_suite_passes_with_change") and m.get("demo_fails_with_change") and m.get("demo_passes_on_clean_tree")
    own = m["checks"][m["property"]]
    res = "**caught**: " + ", ".join(own["failing_clauses"]) if own["exit"] == 1 and own.get("violation_lines", 0) > 0 else ("machinery failure (exit 2)" if own["exit"] == 2 else "missed")
    hist = m.get("history", "")
    rows.append("| %s | %s | %s | %s%s |" % (name, "yes" if valid else "NO", first, res, (" - " + hist) if hist else ""))
table = "| change | confirmed | what it is (from its README) | quick check of its property |\n|---|---|---|---|\n" + "\n".join(rows)
caught = sum(1 for r in rows if "**caught**" in r)
table += "\n\n%d of %d seeded changes are caught by the quick check of the property they were written against.\n" % (caught, len(rows))
print(table)
if "--write" in sys.argv:
    p = os.path.join(ROOT, "DESIGN.md")
    s = open(p).read()
    a = s.index("<!-- SEEDED-TABLE-BEGIN -->") + len("<!-- SEEDED-TABLE-BEGIN -->")
    b = s.index("<!-- SEEDED-TABLE-END -->")
    open(p, "w").write(s[:a] + "\n" + table + "\n" + s[b:])
