#!/usr/bin/env python3
"""Self-test of the machinery (not a registered check): binding demonstrations and negative controls.

For every family a few histories are recorded from the real library, then ONE field of ONE event
is corrupted (or one event deleted / duplicated) and the TLC front-ends must reject exactly
the corrupted histories; the lock-level store model with per-key locking must be rejected by
TLC.  Writes /verif/selftest/report.json and exits non-zero if a demonstration fails."""
import copy, json, os, re, sys
sys.path.insert(0, os.path.join(os.path.dirname(os.path.dirname(os.path.abspath(__file__))), "lib"))
from core import *
import fam_store

report, failed = [], []


def expect(name, cond, detail=""):
    report.append({"demonstration": name, "ok": bool(cond), "detail": detail})
    log("%-70s %s %s" % (name, "ok" if cond else "FAILED", detail))
    if not cond:
        failed.append(name)


def lines_of(path):
    with open(path) as f:
        return [json.loads(l) for l in f if l.strip()]


def write(path, rows):
    with open(path, "w") as f:
        for r in rows:
            f.write(json.dumps(r) + "\n")


def main():
    d = outdir("selftest")
    binp = build_harness(d)

    # ---- engine -------------------------------------------------------------------------------
    hist = os.path.join(d, "e.ndjson")
    run_harness(binp, ["engine", "--out", hist, "--seed", "5", "--count", "40", "--modes", "single,plain,err"])
    rows = lines_of(hist)
    f0, _, _ = judge_histories(d, "TPEngine", hist, "ALL", shards=2)
    expect("engine: uncorrupted histories are accepted", not f0, str(f0[:2]))
    bad = {}
    done = set()
    for r in rows:
        h = r["h"]
        if "k" not in done and any(e["ev"] == "exec" and e["k"] == 2 for e in h):
            for e in h:
                if e["ev"] == "exec" and e["k"] == 2:
                    e["k"] = 3
            done.add("k"); bad[r["scn"]] = "C02"
        elif "post" not in done and any(e["ev"] == "post" and e["prep"] > 0 for e in h):
            for e in h:
                if e["ev"] == "post":
                    e["prep"] += 1
            done.add("post"); bad[r["scn"]] = "C01"
        elif "fb" not in done and any(e["ev"] == "fb" for e in h):
            r["h"] = [e for e in h if e["ev"] != "fb"]
            done.add("fb"); bad[r["scn"]] = "C02"
        elif "seen" not in done and sum(1 for e in h if e["ev"] == "prep") >= 2:
            [e for e in h if e["ev"] == "prep"][1]["seen"] += 1          # a node that did not see what the previous one stored
            done.add("seen"); bad[r["scn"]] = "C01"
        elif "ret" not in done and any(e["ev"] == "runret" and e["iserr"] for e in h):
            for e in h:
                if e["ev"] == "runret":
                    e["iserr"], e["act"] = False, 0
            done.add("ret"); bad[r["scn"]] = "C18"
    cor = os.path.join(d, "e_corrupt.ndjson")
    write(cor, rows)
    f1, _, _ = judge_histories(d, "TPEngine", cor, "ALL", shards=2)
    got = {}
    for scn, prop, cl in f1:
        got.setdefault(scn, set()).add(prop)
    expect("engine: exactly the corrupted histories are rejected", set(got) == set(bad), "%s vs %s" % (sorted(got), sorted(bad)))
    expect("engine: each corruption is rejected by the property it concerns", all(bad[s] in got.get(s, ()) for s in bad), str(got))
    n, ok, _, _ = trace_validate(d, "TraceEngine", cor, shards=2)
    expect("engine: trace validation against FlytEngine rejects exactly the corrupted histories", set(r["scn"] for r in rows) - ok == set(bad),
           "%d unexplained" % (n - len(ok)))

    # ---- batch --------------------------------------------------------------------------------
    hist = os.path.join(d, "b.ndjson")
    run_harness(binp, ["batch", "--out", hist, "--seed", "5", "--count", "30", "--modes", "continue,stop"])
    rows = lines_of(hist)
    bad = {}
    done = set()
    for r in rows:
        h = r["h"]
        post = [e for e in h if e["ev"] == "bpost"]
        if "slot" not in done and post and len(post[0]["slots"]) >= 2 and post[0]["slots"][0]["tok"] and post[0]["slots"][1]["tok"]:
            s = post[0]["slots"]
            s[0]["tok"], s[1]["tok"] = s[1]["tok"], s[0]["tok"]          # results swapped between two items
            done.add("slot"); bad[r["scn"]] = "C06"
        elif "dup" not in done and r["cfg"]["c"] == 0 and not r["cfg"]["stopmode"] and any(e["ev"] == "execin" for e in h):
            i = next(i for i, e in enumerate(h) if e["ev"] == "execout")
            r["h"] = h[:i + 1] + [copy.deepcopy(h[i - 1]), copy.deepcopy(h[i])] + h[i + 1:]     # an item processed twice
            done.add("dup"); bad[r["scn"]] = "C07"
    cor = os.path.join(d, "b_corrupt.ndjson")
    write(cor, rows)
    f1, _, _ = judge_histories(d, "TPBatch", cor, "ALL", shards=2)
    got = {}
    for scn, prop, cl in f1:
        got.setdefault(scn, set()).add(prop)
    expect("batch: exactly the corrupted histories are rejected", set(got) == set(bad), "%s vs %s" % (sorted(got), sorted(bad)))
    expect("batch: each corruption is rejected by the property it concerns", all(bad[s] in got.get(s, ()) for s in bad), str(got))

    # ---- pool ---------------------------------------------------------------------------------
    hist = os.path.join(d, "p.ndjson")
    run_harness(binp, ["pool", "--out", hist, "--seed", "5", "--count", "10", "--modes", "small"])
    rows = [r for r in lines_of(hist) if any(e["ev"] == "taskend" for e in r["h"])]
    r = rows[0]
    i = next(i for i, e in enumerate(r["h"]) if e["ev"] == "taskend")
    r["h"] = r["h"][:i] + r["h"][i + 1:]                                   # a task that never finished before Wait returned
    cor = os.path.join(d, "p_corrupt.ndjson")
    write(cor, rows)
    f1, _, _ = judge_histories(d, "TPPool", cor, "ALL", shards=1)
    expect("pool: a history with a lost task end is rejected, the others accepted", {x[0] for x in f1} == {r["scn"]}, str(f1[:3]))

    # ---- store --------------------------------------------------------------------------------
    hist = os.path.join(d, "s.ndjson")
    run_harness(binp, ["store", "--out", hist, "--seed", "5", "--count", "20"])
    rows = lines_of(hist)
    target = None
    for r in rows:
        for e in r["h"]:
            if e["ev"] == "op" and e["op"] == "len":
                e["res"]["n"] += 1
                target = r["scn"]
                break
        if target:
            break
    cor = os.path.join(d, "s_corrupt.ndjson")
    write(cor, rows)
    f1, _, _ = judge_histories(d, "TPStore", cor, "C14", shards=1)
    expect("store: a wrong Len answer is rejected, the other histories accepted", {x[0] for x in f1} == {target}, str(f1[:3]))

    hist = os.path.join(d, "c.ndjson")
    run_harness(binp, ["storeconc", "--out", hist, "--seed", "5", "--count", "30"])
    rows = lines_of(hist)
    rows[3]["h"] = [
        {"ev": "call", "g": 1, "op": "merge", "k": 0, "v": 0, "m": [[1, 4], [2, 4]], "d": 0},
        {"ev": "call", "g": 2, "op": "getall", "k": 0, "v": 0, "m": [], "d": 0},
        {"ev": "ret", "g": 2, "res": {"ok": False, "v": 0, "n": 1, "keys": [], "pairs": [[1, 4]]}},      # half of the Merge
        {"ev": "ret", "g": 1, "res": {"ok": False, "v": 0, "n": 0, "keys": [], "pairs": []}}]
    cor = os.path.join(d, "c_corrupt.ndjson")
    write(cor, rows)
    ok, _, _ = fam_store.lin_check(d, cor, "lin_selftest")
    expect("store: a history in which a reader sees half of a Merge is not linearizable, all recorded ones are",
           {r["scn"] for r in rows} - ok == {rows[3]["scn"]}, "rejected: %s" % sorted({r["scn"] for r in rows} - ok))

    # ---- negative control: per-key locking does not refine the atomic store ---------------------
    try:
        run_tlc(d, "FlytStoreLock", fam_store.lock_cfg("{1, 2}", perkey=True), workers=4, heap="4g", tag="lock_neg", timeout=600)
        expect("lock-level model with per-key Merge locking is rejected by TLC", False, "TLC found no violation")
    except ToolFailure as e:
        expect("lock-level model with per-key Merge locking is rejected by TLC", "is violated" in str(e), "")
    run_tlc(d, "FlytStoreLock", fam_store.lock_cfg("{1, 2}"), workers=4, heap="4g", tag="lock_pos", timeout=600)
    expect("lock-level model as implemented refines the atomic store", True)

    # ---- negative control: a Close without Wait can lose queued tasks -----------------------------
    import fam_pool
    cfgtxt = fam_pool.mc_cfg("early", 1, 1, 2, 1).replace("EarlyCloseAccounting", "EarlyCloseAccounting EarlyCloseLosesNothing")
    try:
        run_tlc(d, "MCPool", cfgtxt, workers=4, heap="2g", tag="early_neg", timeout=300)
        expect("pool model: TLC finds the behaviour in which a Close without Wait leaves a queued task behind", False, "no violation")
    except ToolFailure as e:
        expect("pool model: TLC finds the behaviour in which a Close without Wait leaves a queued task behind",
               "EarlyCloseLosesNothing is violated" in open(os.path.join(d, "tlc_early_neg.log")).read(), "")

    # ---- negative control: the TLAPS proof of the timed retry loop depends on the wait being honoured --------------
    sp = os.path.join(d, "spec", "FlytRetryTimed.tla")
    txt = open(sp).read()
    assert "/\\ pc = \"wait\" /\\ now - ws >= W\n" in txt
    try:
        run_tlapm(d, "FlytRetryTimedProof")
        expect("TLAPS proves the timed retry loop's invariant", True)
    except ToolFailure as e:
        expect("TLAPS proves the timed retry loop's invariant", False, str(e)[-300:])
    with open(sp, "w") as f:
        f.write(txt.replace("/\\ pc = \"wait\" /\\ now - ws >= W\n", "/\\ pc = \"wait\" /\\ now - ws >= W - 1\n"))
    try:
        run_tlapm(d, "FlytRetryTimedProof")
        expect("with a wait that may end one tick early the proof fails", False, "all obligations proved")
    except ToolFailure:
        expect("with a wait that may end one tick early the proof fails", True)
    with open(sp, "w") as f:
        f.write(txt)

    os.makedirs(os.path.join(ROOT, "selftest"), exist_ok=True)
    with open(os.path.join(ROOT, "selftest", "report.json"), "w") as f:
        json.dump({"demonstrations": report, "failed": failed}, f, indent=1)
    return 1 if failed else 0


sys.exit(main())
