#!/bin/sh
# Re-evaluates every kept seeded change with the current checks (each in its own scratch worktree),
# latest round first.
# usage: tools/reeval_all.sh [parallel jobs, default 3]   -> /tmp/ev/reeval.txt
cd "$(dirname "$0")/.."
ROOT=$(pwd)
J=${1:-3}
mkdir -p /tmp/ev; : > /tmp/ev/reeval.txt
ls seeded | awk '{ r=0; if (match($0, /-r[0-9]+m/)) { r=substr($0, RSTART+2, RLENGTH-3) } else if ($0 ~ /-m[0-9]/) { r=1 } print r, $0 }' | sort -k1,1nr -k2,2 | while read r n; do
  p=$(echo "$n" | cut -c1-3)
  echo "$p $n"
done | xargs -P "$J" -L 1 sh -c "$ROOT"'/tools/eval_seeded.py $0 '"$ROOT"'/seeded/$1 $1 >> /tmp/ev/reeval.txt 2>&1'
grep -c "valid=True" /tmp/ev/reeval.txt
