#!/bin/sh
# Re-evaluates every kept seeded change with the current checks (each in its own scratch worktree).
# usage: tools/reeval_all.sh [parallel jobs, default 3]   -> /tmp/ev/reeval.txt
cd "$(dirname "$0")/.."
J=${1:-3}
mkdir -p /tmp/ev; : > /tmp/ev/reeval.txt
ls seeded | while read n; do
  p=$(echo "$n" | cut -c1-3)
  echo "$p $n"
done | xargs -P "$J" -L 1 sh -c 'tools/eval_seeded.py $0 seeded/$1 $1 >> /tmp/ev/reeval.txt 2>&1'
grep -c "valid=True" /tmp/ev/reeval.txt
