#!/usr/bin/env python3
"""Evaluate a seeded faulty variant of mark3labs/flyt against the checks.

  tools/eval_seeded.py <property id> <dir with patch.diff, demo_test.go, README.md> <name> [other property ids to run as well]

1. confirms in a scratch worktree (outside /repo and /verif) that the patch applies, the repository's own tests
   still pass with it, the demonstration fails with it and passes without it;
2. runs ./check <property> (quick) against the patched scratch copy;
3. stores everything under /verif/seeded/<name>/ (patch.diff, demonstration, README.md, meta.json)
   and removes the scratch worktree."""
import json, os, shutil, subprocess, sys, time
ROOT = os.path.dirname(os.path.dirname(os.path.abspath(__file__)))
ENV = dict(os.environ, GOFLAGS="-mod=mod", GOPROXY="off", GOSUMDB="off", GOTOOLCHAIN="local")

def sh(cmd, cwd=None, env=None, timeout=1800):
    p = subprocess.run(cmd, shell=True, cwd=cwd, env=env or ENV, stdout=subprocess.PIPE, stderr=subprocess.STDOUT, text=True, timeout=timeout)
    return p.returncode, p.stdout

def main():
    pid, src, name = sys.argv[1], os.path.abspath(sys.argv[2]), sys.argv[3]
    others = sys.argv[4:]
    wt = "/tmp/ev/" + name
    shutil.rmtree(wt, ignore_errors=True)
    os.makedirs("/tmp/ev", exist_ok=True)
    sh("git -C /repo worktree prune")
    rc, out = sh("git -C /repo worktree add -f --detach %s HEAD" % wt)
    meta = {"property": pid, "name": name, "source": "independent sub-agent given only the property text", "evaluated_at": time.strftime("%Y-%m-%d %H:%M:%S")}
    try:
        demo = [f for f in os.listdir(src) if f.endswith("_test.go")]
        # clean tree: demo passes
        for f in demo:
            shutil.copy(os.path.join(src, f), wt)
        rc_clean, out_clean = sh("go test -vet=off -count=1 -run 'Demo|C%s' . 2>&1 | tail -5" % pid[1:], cwd=wt)
        for f in demo:
            os.remove(os.path.join(wt, f))
        rc, out = sh("git apply %s" % os.path.join(src, "patch.diff"), cwd=wt)
        meta["patch_applies"] = rc == 0
        rc_suite, out_suite = sh("go build ./... && go test -vet=off -count=1 . 2>&1 | tail -3", cwd=wt)
        meta["existing_suite_passes_with_change"] = rc_suite == 0 and "ok" in out_suite and "FAIL" not in out_suite
        for f in demo:
            shutil.copy(os.path.join(src, f), wt)
        rc_mut, out_mut = sh("go test -vet=off -count=1 -run 'Demo|C%s' . 2>&1 | tail -8" % pid[1:], cwd=wt)
        for f in demo:
            os.remove(os.path.join(wt, f))
        meta["demo_passes_on_clean_tree"] = "ok" in out_clean and "FAIL" not in out_clean
        meta["demo_fails_with_change"] = "FAIL" in out_mut
        meta["demo_output_with_change"] = out_mut[-600:]
        results = {}
        for p in [pid] + others:
            env = dict(ENV, VERIF_REPO=wt, VERIF_OUT_SUFFIX="_" + name)
            t0 = time.time()
            rc, out = sh("./check %s --tier quick" % p, cwd=ROOT, env=env, timeout=3600)
            vio = [l for l in out.splitlines() if l.startswith("VIOLATION")]
            clauses = set()
            for l in vio[:20]:
                path = l.split("replay=")[-1].strip()
                try:
                    clauses |= set(json.load(open(path)).get("clauses", []))
                except Exception:
                    pass
            results[p] = {"exit": rc, "violation_lines": len(vio), "failing_clauses": sorted(clauses), "wall_s": round(time.time() - t0, 1),
                          "tail": out.splitlines()[-3:]}
            shutil.rmtree(os.path.join(ROOT, "out", p + "_" + name), ignore_errors=True)
        shutil.rmtree(os.path.join(ROOT, "out", "evidence_" + name), ignore_errors=True)
        meta["checks"] = results
        meta["detected_by_own_check"] = results[pid]["exit"] == 1 and results[pid]["violation_lines"] > 0
        meta["ran"] = "tools/eval_seeded.py %s %s %s %s" % (pid, src, name, " ".join(others))
    finally:
        sh("git -C /repo worktree remove --force %s" % wt)
        shutil.rmtree(wt, ignore_errors=True)
    dst = os.path.join(ROOT, "seeded", name)
    if not meta.get("patch_applies"):
        print(name, "patch did not apply - nothing recorded")
        return
    os.makedirs(dst, exist_ok=True)
    oldp = os.path.join(dst, "meta.json")
    if os.path.exists(oldp):
        try:
            old = json.load(open(oldp))
            oe = old["checks"][pid]["exit"]
            if oe != meta["checks"][pid]["exit"]:
                meta["history"] = "first evaluation (%s) ended with exit %d%s; this is the re-evaluation after the check was strengthened" % (
                    old.get("evaluated_at", "?"), oe, " (missed)" if oe == 0 else "")
            elif old.get("history"):
                meta["history"] = old["history"]
        except Exception:
            pass
    for f in os.listdir(src):
        if os.path.isfile(os.path.join(src, f)) and os.path.abspath(src) != os.path.abspath(dst):
            shutil.copy(os.path.join(src, f), dst)
    rd = os.path.join(src, "README.md")
    if os.path.exists(rd):
        meta["needs_to_manifest"] = open(rd).read()[:1500]
    json.dump(meta, open(os.path.join(dst, "meta.json"), "w"), indent=1)
    print(name, "valid=%s" % (meta.get("patch_applies") and meta.get("existing_suite_passes_with_change") and meta.get("demo_fails_with_change") and meta.get("demo_passes_on_clean_tree")),
          {p: (r["exit"], r["failing_clauses"]) for p, r in meta.get("checks", {}).items()})

main()
