#!/usr/bin/env python3
"""Vacuity control at the level of the specifications: runs TLC with `-coverage 1` on every model-checking family of the
quick tier (engine, batch, pool, store lock model, timed retry loop) and adds up, per named action of the operational
specifications, how often it was taken.  An action that is never taken in any family would mean that the invariants were
never exercised on it.  Writes selftest/coverage_report.json and prints the actions that were never taken.

  tools/coverage.py            (about five minutes; uses its own scratch directory under out/)"""
import json, os, re, sys
ROOT = os.path.dirname(os.path.dirname(os.path.abspath(__file__)))
sys.path.insert(0, os.path.join(ROOT, "lib"))
import core, fam_engine, fam_batch, fam_pool

LINE = re.compile(r"^<(\w+) line \d+, col \d+ to line \d+, col \d+ of module (\w+)(?: \([\d ]+\))?>: (\d+):(\d+)")


def counts(lines):
    res = {}
    for l in lines:
        m = LINE.match(l)
        if m:
            key = "%s!%s" % (m.group(2), m.group(1))
            res[key] = res.get(key, 0) + int(m.group(4))
    return res


def main():
    d = core.outdir("coverage")
    total, runs = {}, []

    def add(spec, tag, cfg, **kw):
        lines, wall = core.run_tlc(d, spec, cfg.replace("DoExport = TRUE", "DoExport = FALSE"), tag="cov_" + tag, extra=["-coverage", "1"], **kw)
        c = counts(lines)
        for k, v in c.items():
            total[k] = total.get(k, 0) + v
        runs.append({"spec": spec, "family": tag, "distinct_states": core.tlc_stats(lines)["distinct"], "wall_s": round(wall, 1)})
        print("%-10s %-22s %d states (%.0fs)" % (spec, tag, runs[-1]["distinct_states"], wall), flush=True)

    seen = set()
    for pid, plan in fam_engine.PLAN.items():
        for fam, maxn, maxv in plan["mc_q"]:
            if (fam, maxn, maxv) in seen:
                continue
            seen.add((fam, maxn, maxv))
            add("MCEngine", "%s_%d_%d" % (fam, maxn, maxv), fam_engine.mc_cfg(fam, maxn, maxv), workers=8, heap="4g")
    seen = set()
    for pid, plan in fam_batch.PLAN.items():
        for fam, items, c, n, export in plan["mc_q"]:
            if (fam, items, c, n) in seen or (fam, items, c, n) == ("gated", 3, 2, 2):
                continue
            seen.add((fam, items, c, n))
            add("MCBatch", "%s_%d_%d_%d" % (fam, items, c, n), fam_batch.mc_cfg(fam, items, c, n, False), workers=8, heap="6g", timeout=1500)
    for fam, w, s, per, rounds in [("full", 2, 2, 2, 2), ("early", 2, 2, 2, 1), ("selfwait", 2, 2, 2, 2), ("gated", 2, 2, 1, 1)]:
        add("MCPool", "%s_%d_%d_%d_%d" % (fam, w, s, per, rounds), fam_pool.mc_cfg(fam, w, s, per, rounds), workers=8, heap="6g")
    add("FlytRetryTimed", "timed", "SPECIFICATION TSpec\nCONSTANTS\n  N = 3\n  W = 2\n  MaxTime = 8\nINVARIANTS WaitHonoured WaitOnlyBetween\nCHECK_DEADLOCK FALSE\n", workers=4)

    # the operational specifications' own named actions (front-end modules only choose configurations)
    ops = {k: v for k, v in total.items() if k.split("!")[0] in ("FlytEngine", "FlytBatch", "FlytPool", "FlytRetryTimed")}
    never = sorted(k for k, v in ops.items() if v == 0)
    rep = {"runs": runs, "actions_taken": dict(sorted(ops.items())), "never_taken": never}
    os.makedirs(os.path.join(ROOT, "selftest"), exist_ok=True)
    json.dump(rep, open(os.path.join(ROOT, "selftest", "coverage_report.json"), "w"), indent=1)
    print("actions of the operational specifications: %d, never taken: %s" % (len(ops), never or "none"))
    return 1 if never else 0


if __name__ == "__main__":
    sys.exit(main())
