#!/usr/bin/env python3
"""Runs the relevant quick checks against every behaviour-preserving patch of selftest/benign/:
every check must stay at exit 0 (no false alarm). Writes selftest/benign_report.json."""
import json, os, shutil, subprocess, sys, time
ROOT = os.path.dirname(os.path.dirname(os.path.abspath(__file__)))
ENV = dict(os.environ, GOFLAGS="-mod=mod", GOPROXY="off", GOSUMDB="off", GOTOOLCHAIN="local")
CHECKS = {
    "queue_capacity": ["C06", "C07", "C08", "C09", "C11", "C12"],
    "error_texts_extra_wrap": ["C01", "C02", "C04", "C05", "C10", "C18"],
    "newtimer": ["C02", "C05", "C20"],
    "batch_ctx_before_prep": ["C05", "C06", "C09", "C11", "C18"],
    "batch_gosched_before_record": ["C06", "C07", "C08", "C09", "C11"],
    "store_getall_refactor": ["C13", "C14"],
    "flow_ctx_check_after_child": ["C03", "C04", "C05", "C10", "C18"],
    "queue_capacity_larger": ["C12", "C08", "C06"],
    "store_compaction_locked": ["C13", "C14", "C15"],
    "pool_submit_fastpath": ["C12", "C08", "C06"],
    "batch_wait_timer": ["C20", "C11", "C07", "C02"],
    "flow_run_spelled_out": ["C02", "C03", "C10", "C11"],
    "queue_unbuffered": ["C12", "C08", "C06", "C11"],
    "flow_exec_recursive": ["C03", "C10", "C04", "C05"],
    "error_result_keeps_state": ["C18", "C17", "C01", "C15", "C06"],
}
def sh(cmd, cwd=None, env=None, timeout=3600):
    p = subprocess.run(cmd, shell=True, cwd=cwd, env=env or ENV, stdout=subprocess.PIPE, stderr=subprocess.STDOUT, text=True, timeout=timeout)
    return p.returncode, p.stdout
only = sys.argv[1:]
rep = {}
bad = 0
for name, checks in CHECKS.items():
    if only and name not in only:
        continue
    wt = "/tmp/bn_" + name
    shutil.rmtree(wt, ignore_errors=True)
    sh("git -C /repo worktree prune")
    sh("git -C /repo worktree add -f --detach %s HEAD" % wt)
    try:
        rc, out = sh("git apply %s" % os.path.join(ROOT, "selftest", "benign", name + ".diff"), cwd=wt)
        rc2, out2 = sh("go build ./... && go test -vet=off -count=1 . 2>&1 | tail -2", cwd=wt)
        rep[name] = {"applies": rc == 0, "suite": out2.strip()[-80:], "checks": {}}
        for c in checks:
            env = dict(ENV, VERIF_REPO=wt, VERIF_OUT_SUFFIX="_bn_" + name)
            rc3, out3 = sh("./check %s --tier quick" % c, cwd=ROOT, env=env)
            drift = [l for l in out3.splitlines() if l.startswith("DRIFT") or "explained" in l]
            rep[name]["checks"][c] = {"exit": rc3, "notes": drift[-2:]}
            print(name, c, "exit", rc3, drift[-1:] , flush=True)
            if rc3 != 0:
                bad += 1
                rep[name]["checks"][c]["tail"] = out3.splitlines()[-6:]
            shutil.rmtree(os.path.join(ROOT, "out", c + "_bn_" + name), ignore_errors=True)
        shutil.rmtree(os.path.join(ROOT, "out", "evidence_bn_" + name), ignore_errors=True)
    finally:
        sh("git -C /repo worktree remove --force %s" % wt)
        shutil.rmtree(wt, ignore_errors=True)
os.makedirs(os.path.join(ROOT, "selftest"), exist_ok=True)
json.dump(rep, open(os.path.join(ROOT, "selftest", "benign_report.json"), "w"), indent=1)
print("false alarms:", bad)
sys.exit(1 if bad else 0)
