#!/usr/bin/env python3
"""Regenerates /verif/MANIFEST.json from the table below (single source of truth)."""
import json, os
ROOT = os.path.dirname(os.path.dirname(os.path.abspath(__file__)))
props = [json.loads(l) for l in open(os.path.join(ROOT, "properties.jsonl"))]

TRUST = ("Trusted: TLC and the TLA+ front-ends; the Go harness (token registry, scripted callbacks) faithfully logs what the "
         "callbacks receive; TLC explores the operational spec only within the stated bounds; beyond them assurance comes from the "
         "real histories validated in this run.")

CHECKS = {
 "C01": ("model_checking", "6 C01", "TLA+ history predicate C01_Clauses (PropsEngine.tla) checked by TLC as an invariant of FlytEngine.tla over all node kinds x budgets x outcome scripts in bounds, every TLC behaviour replayed on the real library (2 Go-kind variants) and TLC evaluating the predicate on every recorded history, plus seeded random scenarios beyond the bounds. Also: the table spec FlytDefaults.tla (nodes that provide only some of their phases: struct nodes inheriting BaseNode defaults, option- and builder-style function nodes in both styles, batch nodes) - 132 cells enumerated by TLC, each built and run on the real library alone and as the first step of a flow; data written to the store by a post must be what the next prep reads (DataThreaded); callbacks observe the run's own live context; payloads include error-typed values and typed nils; cancellation scenarios."),
 "C02": ("model_checking", "6 C02", "C02_Clauses + state invariant AttemptBound model-checked on FlytEngine.tla (all failure sequences up to the budget, fallback absent/ok/err, cancellation variants); all behaviours replayed on real nodes of every kind; predicate evaluated by TLC on real histories incl. budgets up to 8. Also: flows with a retry budget of their own (family flowretry); every third scenario and every re-execution is also run through (*Flow).Run and must agree event for event; timed scenarios (fallback only after the budget, not after a cancelled wait); batch part (per-item budget, every item attempted)."),
 "C03": ("model_checking", "6 C03", "Routing predicate PathHolds (independent table interpreter Walk) model-checked against FlytEngine.tla for all 256 tables over 2 nodes x 2 actions, overwriting Connects, two runs with re-connection; behaviours replayed on real flows; random graphs up to 12 nodes / depth 4 judged by TLC. Also: zero-size node types (distinct nodes sharing one address), nodes of all Go kinds, (*Flow).Run comparison."),
 "C04": ("model_checking", "6 C04", "C04_Clauses model-checked with an error outcome possible at every callback of flat and nested flows; fault enumeration on the real code: one scenario per position of an executed path x error flavour (sentinel, wrapped, custom type), each history judged by TLC. Also: errors.Join values, errors wrapping a context error while the run's context is alive, error-typed payloads; batch nodes as flow steps; batch part."),
 "C05": ("model_checking", "6 C05", "C05_Clauses model-checked with cancellation injected at any callback / before the run; cancel enumeration on the real code at every position of executed paths with cancel and (manually expired) deadline contexts; histories judged by TLC. Also: contexts cancelled with a cause; an attempt that fails after the cancellation is not recovered by the fallback; timed part (cancellation from outside during a retry wait)."),
 "C10": ("model_checking", "6 C10", "Hierarchical path predicate model-checked for nested flows (depth 2 and 3, all small tables); behaviours replayed on real nested flows; random hierarchies to depth 4 with reused inner flows judged by TLC. Also: flows with their own retry budget; every callback at any depth observes the run's live context (sameContext) and the data written by the node before it at whatever depth (DataThreaded); an inner flow's error arrives unreduced (innerError); flattened-machine comparison (FlatAgrees)."),
 "C17": ("model_checking", "6 C17", "C17_Clauses model-checked over all 8 style combinations incl. error results and nil values; behaviours replayed on real function nodes built option-style and builder-style with payloads of 7 Go kinds; judged by TLC."),
 "C18": ("model_checking", "6 C18", "C18_Clauses + state invariant NoEmptyAction model-checked; empty-action posts as routed steps (default connection must be followed); behaviours replayed; judged by TLC. Also: blank-looking action names, cancellation scenarios (a cancelled run must not return the empty action with a nil error), the action rule for nodes without a post function (FlytDefaults.tla), batch part incl. the empty batch."),
 "C06": ("model_checking", "6 C06", "C06_Clauses model-checked on FlytBatch.tla (implementation-shaped: FIFO queue of 2c, workers, WaitGroup, stop flag under the mutex) over all interleavings for small n,c; behaviours of the gated scheduler exported and realised on the real batch runner by parking every exec call on a gate (every completion order); prep payload shapes []Result/[]any/typed slices/single/nil; random sizes to 64 items / 16 workers; TLC judges every recorded history."),
 "C07": ("model_checking", "6 C07", "C07_Clauses (exactly-once, per-item budget/fallback, slot contents) model-checked over all per-item outcome scripts in bounds, all interleavings; gated replay of every exported completion order on the real code; random batches; judged by TLC."),
 "C08": ("model_checking", "6 C08", "State invariant ConcurrencyBound + history predicate (in-flight count at every exec entry, tickets taken inside the callback so logged intervals are contained in real ones) model-checked; barrier scenarios on the real code show c executions do run simultaneously (stuck watchdog); sequential order clause; judged by TLC."),
 "C09": ("model_checking", "6 C09", "C09_Clauses model-checked incl. the race between one worker's Record and another's StopCheck (separate actions); gated replay where all other workers are parked while the failure is handled (strict clause, confirmed with 20/100/400 ms settle pauses before it counts); noFakeSuccess on every slot; judged by TLC."),
 "C11": ("model_checking", "6 C11", "C11_Clauses model-checked with cancellation from inside any exec/fallback/post or before the run, with retry waits; gated replay with cancel and manually-expired deadline contexts; hang watchdog; judged by TLC. Also through a flow: flows whose steps are batch nodes, with loops in their table, cancelled from inside an item (family batchloop / mode batchflow, clauses C11E: the run terminates, no new batch or attempt after the cancellation, context error or full path), judged on FlytEngine histories; real deadline and cancel-with-cause contexts."),
 "C12": ("model_checking", "6 C12", "FlytPool.tla (Submit = Add + blocking send, FIFO queue of 2*workers, worker select loop, Wait, Close) model-checked over every interleaving of submitters/workers/rounds (state invariants AtMostOnce, WgExact, WaitBarrier, RoundBarrier, PoolBound; liveness Close ~> all workers exited under weak fairness); C12_Clauses (one-pass monitor over submit/submitret/taskstart/taskend/waitcall/waitret/leak events) checked on the gated-scheduler behaviours, which are replayed on the real pool (gated submitters and task bodies); random pools to 16 workers / 500 tasks / 4 submitters / 3 rounds under the race detector with plain writes read back after Wait and a goroutine-dump leak probe; judged by TLC. Also: back-pressure as a clause of its own (returned-but-unfinished tasks never exceed the queue capacity read off the real pool object plus the workers; schedule `full` drives Submit into a full queue), tens of thousands of paced Submit/Submit/Wait rounds on one small pool cut into per-round slices, Wait concurrent with late submitters; histories of a Close without Wait are trace-validated against CloseEarly without a verdict."),
 "C13": ("model_checking", "6 C13", "Linearizability decided history by history by TLC: FlytStoreConc.tla (Call / silent Lin applying StoreSem!Apply atomically / Ret must return what Lin computed) must have a behaviour consuming each recorded call/ret history (2-6 goroutines from a barrier, all operations incl. Merge of up to 8 keys, Clear, GetAll, Keys, Len, typed getters); the lock-level model FlytStoreLock.tla (RWMutex, per-key loop bodies) is model-checked to refine the atomic store; recording and an additional stress run execute under the Go race detector (a report is a violation). Also: the caller mutates the map it handed to Merge; long runs under delete churn in which every log of the single writer of a key set must be a sequential map history (ownerSequential); quiescent self-consistency after stress; a Go runtime concurrent-map fatal error inside a store method counts as a race."),
 "C14": ("model_checking", "6 C14", "FlytStore.tla explores every operation sequence (with snapshot mutation / read-back / merge-snapshot steps) over 2 keys x values incl. nil up to the bound, checking mutual consistency of Has/Len/Keys/GetAll in every state; every exported sequence is replayed on the real store; PropsStore!Replay (fold of StoreSem!Apply) is evaluated by TLC on every recorded history incl. random sequences up to 200 operations over 12 keys (empty and non-ASCII keys, nil values)."),
 "C15": ("model_checking", "6 C15", "Decision table FlytAccess.tla (38 value classes x 6 families x plain/Or/Must x result/store/absent); TLC enumerates all 1572 cells and checks the consistency relations the property states (never panics, Must/plain/Or agreement, store = result, conversion exactly for the documented types); every cell is exercised on the real accessors with several representative values per class (boundary values of all numeric kinds, NaN/Inf, typed nils, self-containing slice, uncomparable structs/arrays) plus seeded random values; the harness logs plain facts (panicked, ok, equals default / zero / Go's own conversion / ToSlice elementwise) and TLC judges each call against its cell. Also: values whose dynamic type is flyt.Result itself; replacement sequences on one store key."),
 "C16": ("model_checking", "6 C16", "Decision table FlytBind.tla (carrier x key present x nil value x destination class x encoding/json reference outcome -> err / copy / json), consistency relations checked by TLC; every cell exercised with maps, tagged/untagged structs, slices, scalars, pointers, channels, funcs and random nested JSON values against a reference json.Marshal+Unmarshal into a fresh destination; never-panics, source-unchanged and carrier-agreement facts judged by TLC."),
 "C19": ("model_checking", "6 C19", "FlytConfig.tla builds configuration step sequences (constructor option / builder method / NodeOption applied later) and checks stepwise application = last-setting-wins, unrelated parameters untouched; every sequence up to the bound is exported and applied to real NodeBuilder / BatchNodeBuilder objects; getters and two probe runs (attempts on an always-failing exec, fallback / functions actually called, concurrency high-water mark at a barrier, stop vs continue) are compared by TLC with the expected configuration; random sequences up to length 6. Also: scalar options handed over as plain func(*BaseNode) values; function settings in Result and Any style; pool-size probe."),
 "C20": ("model_checking", "6 C20", "Timed model FlytRetryTimed.tla (integer clock, wait = select{timer, ctx.Done}, urgency of the cancelled wait) model-checked: WaitHonoured, WaitOnlyBetween, PromptReturn, NoAttemptAfterCancelledWait; on the real code monotonic timestamps are taken inside the callbacks (so the measured gap over-approximates the real wait: the lower bound is a sound hard verdict) for waits 1-50 ms x budgets 2-5 x failure sequences on struct nodes, function nodes and batch items; upper bounds (no wait before the first / after the last attempt with a 1.2 s wait; return within w/2 resp. 10 s after a cancellation 20 ms into a 2 s / 1 h wait) count only if exceeded on three consecutive re-executions; TLC evaluates PropsTiming on every timed history. Also: failing attempts whose error wraps a context error while the run's context is alive, errors.Join; real context deadlines falling into the wait; waitCompletes (no cancellation, so every attempt of the budget is made); stop-mode sibling waits."),
}
ENGINE = ["C01", "C02", "C03", "C04", "C05", "C10", "C17", "C18"]
BATCH = ["C06", "C07", "C08", "C09", "C11"]
POOL = ["C12"]
STORE = ["C13", "C14"]
TABLES = ["C15", "C16", "C19"]

checks = []
for p in props:
    pid = p["id"]
    if pid not in CHECKS:
        continue
    cat, ref, text = CHECKS[pid]
    checks.append({
        "property_id": pid,
        "quick_cmd": "./check %s --tier quick" % pid,
        "thorough_cmd": "./check %s --tier thorough" % pid,
        "evidence_file": "/verif/evidence/%s.json" % pid,
        "replay_cmd_template": "./check replay {path}",
        "engine": "tla-engine" if pid in ENGINE else "tla-batch" if pid in BATCH else "tla-pool" if pid in POOL else "tla-store" if pid in STORE else "tla-tables" if pid in TABLES else "tla-timing" if pid == "C20" else "tla",
        "level_claimed": {"category": cat, "text": text, "design_ref": "DESIGN.md section " + ref},
        "level_note": TRUST,
        "technique": "explicit TLA+ spec model-checked with TLC; TLC-generated behaviours replayed into the real code; TLA+ property predicates evaluated by TLC on histories recorded from the real code",
    })

m = {
 "version": 1,
 "setup_cmd": "./check setup",
 "hooks": {"guard": "verif",
           "enable": "go build -tags verif (harness only; no source hooks exist in /repo: observation is through user callbacks and public call/return)",
           "baseline_off_cmd": "cd /repo && go test -mod=mod -vet=off -count=1 -timeout 25m ./...",
           "source_commits": [], "add_only": True},
 "engines": [
   {"name": "tla-engine", "path": "/verif/spec/FlytEngine.tla", "serves_properties": ENGINE,
    "kind_free_text": "TLA+ operational spec of Run/Flow/function nodes + PropsEngine.tla predicates + MCEngine/TPEngine front-ends + Go harness"},
   {"name": "tla-timing", "path": "/verif/spec/FlytRetryTimed.tla", "serves_properties": ["C20"],
    "kind_free_text": "timed TLA+ model of the retry loop + PropsTiming predicates + timing harness"},
   {"name": "tla-tables", "path": "/verif/spec/FlytAccess.tla", "serves_properties": TABLES,
    "kind_free_text": "decision-table specs FlytAccess / FlytBind / FlytConfig + TPTables front-end + Go harness logging facts per call"},
   {"name": "tla-store", "path": "/verif/spec/StoreSem.tla", "serves_properties": ["C13", "C14"],
    "kind_free_text": "StoreSem (sequential semantics), FlytStore (bounded MC + export), PropsStore (replay predicate), FlytStoreConc (linearizability search over recorded histories), FlytStoreLock (lock-level refinement) + Go harness"},
   {"name": "tla-pool", "path": "/verif/spec/FlytPool.tla", "serves_properties": ["C12", "C08"],
    "kind_free_text": "TLA+ operational spec of WorkerPool + PropsPool.tla monitor + MCPool/TPPool + gated Go harness under -race"},
   {"name": "tla-batch", "path": "/verif/spec/FlytBatch.tla", "serves_properties": BATCH + ["C02", "C04", "C18"],
    "kind_free_text": "TLA+ operational spec of the batch runner over the worker pool + PropsBatch.tla predicates + MCBatch/TPBatch front-ends + gating Go harness"},
 ],
 "checks": checks,
 "notes": "See DESIGN.md. Exit 2 = machinery failure (never a verdict).",
 "not_applicable": [{"property_id": p["id"], "reason": "check not built yet (build in progress; planned per DESIGN.md section 6)"}
                    for p in props if p["id"] not in CHECKS],
}
json.dump(m, open(os.path.join(ROOT, "MANIFEST.json"), "w"), indent=1)
print("checks:", len(checks), "pending:", len(m["not_applicable"]))
