"""Core plumbing of the /verif checks: running TLC, building and running the Go
harness against /repo's working tree, sharding histories, collecting verdicts,
known findings, evidence files.

Exit code convention of every check:
  0  the property held on everything explored (KNOWN-FINDING lines allowed)
  1  a violation of the property by the real code, confirmed by re-execution
  2  the machinery itself failed (TLC error, build failure, model-level counterexample ...)
"""
import json, os, re, shutil, subprocess, sys, time, hashlib, concurrent.futures

ROOT = os.path.dirname(os.path.dirname(os.path.abspath(__file__)))
SPEC = os.path.join(ROOT, "spec")
HARNESS = os.path.join(ROOT, "harness")
# Mutant evaluation only (tools/eval_seeded.py): build against a scratch copy of the repository and keep
# scratch output / evidence apart. The registered checks never set these variables and use /repo itself.
REPO = os.environ.get("VERIF_REPO", "/repo")
OUT_SUFFIX = os.environ.get("VERIF_OUT_SUFFIX", "")
TLA_CP = "/opt/veriftools/tla/tla2tools.jar:/opt/veriftools/tla/CommunityModules-deps.jar"

GOENV = dict(os.environ, GOFLAGS="-mod=mod", GOPROXY="off", GOSUMDB="off", GOTOOLCHAIN="local")


class ToolFailure(Exception):
    pass


def log(msg):
    print(msg, flush=True)


def die(msg, code=2):
    log("CHECK-ERROR: " + msg)
    sys.exit(code)


# --------------------------------------------------------------------------
# scratch directories
# --------------------------------------------------------------------------

def outdir(pid):
    d = os.path.join(ROOT, "out", pid + OUT_SUFFIX)
    shutil.rmtree(d, ignore_errors=True)
    os.makedirs(d)
    # TLC litters its working directory: run it in a private copy of the specs
    sp = os.path.join(d, "spec")
    os.makedirs(sp)
    for f in os.listdir(SPEC):
        if f.endswith(".tla") or f.endswith(".cfg"):
            shutil.copy(os.path.join(SPEC, f), sp)
    return d


# --------------------------------------------------------------------------
# TLC
# --------------------------------------------------------------------------

def java_cmd(heap, workers):
    gc = max(2, min(4, workers))
    return ["java", "-Xss64m", "-Xmx" + heap, "-Xmn128m", "-XX:+UseParallelGC", "-XX:ParallelGCThreads=%d" % gc,
            "-cp", TLA_CP, "tlc2.TLC"]


def run_tlc(d, module, cfg_text, env=None, workers=4, heap="3g", timeout=900, tag=None, extra=None):
    """Run TLC on spec `module` (in d/spec) with the given cfg text. Returns the output lines.
    Raises ToolFailure when TLC reports an error (parse error, invariant violation, crash)."""
    sp = os.path.join(d, "spec")
    tag = tag or module
    cfgp = os.path.join(sp, tag + ".cfg")
    with open(cfgp, "w") as f:
        f.write(cfg_text)
    meta = os.path.join(d, "meta_" + tag)
    shutil.rmtree(meta, ignore_errors=True)
    cmd = java_cmd(heap, workers) + ["-workers", str(workers), "-metadir", meta, "-config", cfgp] + (extra or []) + [module + ".tla"]
    e = dict(os.environ)
    e.update(env or {})
    t0 = time.time()
    try:
        p = subprocess.run(cmd, cwd=sp, env=e, stdout=subprocess.PIPE, stderr=subprocess.STDOUT, timeout=timeout, text=True)
    except subprocess.TimeoutExpired:
        raise ToolFailure("TLC timed out after %ds on %s" % (timeout, tag))
    finally:
        shutil.rmtree(meta, ignore_errors=True)
    lines = p.stdout.splitlines()
    with open(os.path.join(d, "tlc_" + tag + ".log"), "w") as f:
        f.write(p.stdout)
    ok = any("Model checking completed. No error has been found." in l for l in lines)
    if not ok:
        tail = "\n".join(l for l in lines if not l.startswith(("Parsing", "Semantic", "Linting")))[-3000:]
        raise ToolFailure("TLC did not complete cleanly on %s (exit %d):\n%s" % (tag, p.returncode, tail))
    return lines, time.time() - t0


TLAPM_STDLIB = "/opt/veriftools/tlapm/lib/tlapm/stdlib"


def run_tlapm(d, module, timeout=900, threads=8):
    """Check the TLAPS proofs of `module` (in d/spec) from scratch. Returns (obligations, seconds).
    Raises ToolFailure unless every obligation is proved."""
    sp = os.path.join(d, "spec")
    shutil.copy(os.path.join(TLAPM_STDLIB, "TLAPS.tla"), sp)
    shutil.rmtree(os.path.join(sp, ".tlacache"), ignore_errors=True)
    t0 = time.time()
    try:
        p = subprocess.run(["tlapm", "--threads", str(threads), module + ".tla"], cwd=sp, stdout=subprocess.PIPE, stderr=subprocess.STDOUT,
                           timeout=timeout, text=True)
    except subprocess.TimeoutExpired:
        raise ToolFailure("tlapm timed out after %ds on %s" % (timeout, module))
    finally:
        shutil.rmtree(os.path.join(sp, ".tlacache"), ignore_errors=True)
    with open(os.path.join(d, "tlapm_" + module + ".log"), "w") as f:
        f.write(p.stdout)
    m = re.search(r"All (\d+) obligations? proved", p.stdout)
    if p.returncode != 0 or not m:
        raise ToolFailure("tlapm did not prove every obligation of %s:\n%s" % (module, p.stdout[-2500:]))
    return int(m.group(1)), time.time() - t0


def tlc_stats(lines):
    st = {"generated": 0, "distinct": 0, "depth": 0}
    for l in lines:
        m = re.match(r"(\d+) states generated, (\d+) distinct states found", l)
        if m:
            st["generated"], st["distinct"] = int(m.group(1)), int(m.group(2))
        m = re.match(r"The depth of the complete state graph search is (\d+)", l)
        if m:
            st["depth"] = int(m.group(1))
    return st


def export_lines(lines, prefix="SCN "):
    """Scenario lines printed by PrintT("SCN " \\o ToJson(..)): a JSON string literal per line."""
    res = []
    for l in lines:
        if l.startswith('"' + prefix):
            s = json.loads(l)
            res.append(s[len(prefix):])
    return res


_tuple_re = re.compile(r'^<<"(FAIL|DRIFT|SUMMARY|INFO)"')


def parse_prints(lines):
    """Parse <<"FAIL", scn, "C02", {"a","b"}>>, <<"DRIFT", scn>>, <<"SUMMARY", [..]>> lines
    (TLC pretty-prints long values over several lines)."""
    fails, drifts, summaries = [], [], []
    i = 0
    n = len(lines)
    while i < n:
        l = lines[i]
        if l.startswith('<<"FAIL"'):
            m = re.match(r'<<"FAIL", (-?\d+), "(\w+)", \{(.*)\}>>', l)
            if not m:
                # multi-line set
                buf = l
                while ">>" not in buf and i + 1 < n:
                    i += 1
                    buf += " " + lines[i].strip()
                m = re.match(r'<<"FAIL", (-?\d+), "(\w+)", \{(.*)\}\s*>>', buf)
            if m:
                clauses = [c.strip().strip('"') for c in m.group(3).split(",") if c.strip()]
                fails.append((int(m.group(1)), m.group(2), clauses))
        elif l.startswith('<<"DRIFT"'):
            m = re.match(r'<<"DRIFT", (-?\d+)', l)
            if m:
                drifts.append(int(m.group(1)))
        elif l.startswith('<< "SUMMARY"') or l.startswith('<<"SUMMARY"'):
            buf = l
            while not buf.rstrip().endswith(">>") and i + 1 < n:
                i += 1
                buf += " " + lines[i].strip()
            summaries.append(parse_summary(buf))
        i += 1
    return fails, drifts, summaries


def parse_summary(buf):
    """Extract every `name |-> integer` pair of a printed TLA+ record (nested records flattened)."""
    return {k: int(v) for k, v in re.findall(r"(\w+) \|-> (-?\d+)", buf)}


def merge_counts(dicts):
    res = {}
    for d in dicts:
        for k, v in d.items():
            res[k] = res.get(k, 0) + v
    return res


# --------------------------------------------------------------------------
# Go harness
# --------------------------------------------------------------------------

def build_harness(d, race=False):
    """Build the harness against /repo's current working tree (replace directive)."""
    binp = os.path.join(d, "harness_race" if race else "harness")
    modflag = []
    if REPO != "/repo":
        mf = os.path.join(d, "alt.mod")
        with open(os.path.join(HARNESS, "go.mod")) as f:
            txt = f.read().replace("=> /repo", "=> " + REPO)
        with open(mf, "w") as f:
            f.write(txt)
        modflag = ["-modfile=" + mf]
    cmd = ["go", "build", "-tags", "verif"] + modflag + (["-race"] if race else []) + ["-o", binp, "."]
    p = subprocess.run(cmd, cwd=HARNESS, env=GOENV, stdout=subprocess.PIPE, stderr=subprocess.STDOUT, text=True, timeout=900)
    if p.returncode != 0:
        raise ToolFailure("harness build failed:\n" + p.stdout[-3000:])
    return binp


def run_harness(binp, args, timeout=1800, env=None, tolerate_crash=False):
    """Runs the harness. With tolerate_crash a crash of the process (a Go runtime panic / fatal error, typically caused
    by a data race in the code under test) is returned as a message instead of raised: what was recorded up to
    then is on disk and can still be judged."""
    e = dict(GOENV)
    e.update(env or {})
    p = subprocess.run([binp] + args, stdout=subprocess.PIPE, stderr=subprocess.STDOUT, text=True, timeout=timeout, env=e)
    if p.returncode != 0:
        msg = "harness %s failed (exit %d):\n%s" % (" ".join(args[:3]), p.returncode, p.stdout[:1500] + "\n...\n" + p.stdout[-1500:])
        # (the excerpt may cut the one frame that tells whose code crashed: name the library types seen anywhere in the dump)
        seen = [t for t in ("flyt.(*SharedStore)", "flyt.(*WorkerPool)", "flyt.NewWorkerPool", "flyt.runBatch", "flyt.Run(") if t in p.stdout]
        if seen:
            msg += "\n[goroutine dump mentions: %s]" % ", ".join(seen)
        for marker in ("fatal error: concurrent map", "panic:"):
            if marker in p.stdout and marker not in msg:
                msg += "\n[%s ...]" % marker
        if tolerate_crash and ("goroutine " in p.stdout or "fatal error" in p.stdout) and "HARNESS-" not in p.stdout:
            return msg
        raise ToolFailure(msg)
    return None


def shard_file(path, k):
    with open(path) as f:
        lines = f.readlines()
    if not lines:
        return []
    k = max(1, min(k, len(lines)))
    outs = []
    for i in range(k):
        part = lines[i::k]
        pp = "%s.part%d" % (path, i)
        with open(pp, "w") as f:
            f.writelines(part)
        outs.append(pp)
    return outs


def judge_histories(d, tp_module, hist_path, props, shards=8, heap="2g", timeout=1500, cfg_text=None):
    """Evaluate the property predicates on every recorded history with TLC (sharded)."""
    parts = shard_file(hist_path, shards)
    cfg_text = cfg_text or "SPECIFICATION Spec\nPOSTCONDITION Consumed\nCHECK_DEADLOCK FALSE\n"
    fails, drifts, sums = [], [], []

    def one(ix_part):
        ix, part = ix_part
        lines, _ = run_tlc(d, tp_module, cfg_text, env={"TRACE": part, "PROPS": props}, workers=1, heap=heap,
                           timeout=timeout, tag="%s_judge%d" % (tp_module, ix))
        return parse_prints(lines)

    with concurrent.futures.ThreadPoolExecutor(max_workers=max(1, len(parts))) as ex:
        for f, dr, s in ex.map(one, enumerate(parts)):
            fails += f
            drifts += dr
            sums += s
    if len(sums) != len(parts):
        raise ToolFailure("judge: %d summaries for %d shards" % (len(sums), len(parts)))
    return fails, drifts, merge_counts(sums)


def trace_validate(d, module, hist_path, keep=None, shards=8, heap="3g", timeout=1500, limit=12000):
    """Classic trace validation: every history of the file must be explained by the operational spec
    (TRACE-OK printed per accepted history). Returns (validated, accepted ids, states, transitions)."""
    sel = hist_path + ".tv"
    ids = []
    with open(hist_path) as f, open(sel, "w") as g:
        for line in f:
            if not line.strip():
                continue
            r = json.loads(line)
            if (keep is None or keep(r)) and len(ids) < limit:
                g.write(line)
                ids.append(r["scn"])
    if not ids:
        return 0, set(), 0, 0
    parts = shard_file(sel, shards)
    ok, states, trans = set(), 0, 0

    def one(ix_part):
        ix, part = ix_part
        lines, _ = run_tlc(d, module, "SPECIFICATION TSpec\nCHECK_DEADLOCK FALSE\n", env={"TRACE": part}, workers=1, heap=heap,
                           timeout=timeout, tag="%s_tv%d" % (module, ix))
        acc = set()
        for l in lines:
            m = re.match(r'<<"TRACE-OK", (-?\d+)>>', l)
            if m:
                acc.add(int(m.group(1)))
        return acc, tlc_stats(lines)

    with concurrent.futures.ThreadPoolExecutor(max_workers=len(parts)) as ex:
        for acc, st in ex.map(one, enumerate(parts)):
            ok |= acc
            states += st["distinct"]
            trans += st["generated"]
    return len(ids), ok, states, trans


def load_scenarios(path):
    res = {}
    with open(path) as f:
        for line in f:
            if line.strip():
                r = json.loads(line)
                res[r["scn"]] = r
    return res


# --------------------------------------------------------------------------
# known findings
# --------------------------------------------------------------------------

def load_findings():
    p = os.path.join(ROOT, "known_findings.json")
    if not os.path.exists(p):
        return []
    with open(p) as f:
        return json.load(f).get("findings", [])


def known_signatures(pid):
    """signature -> description of the genuine defects that are recorded but not repaired"""
    return {f["signature"]: f["what"] for f in load_findings() if f.get("kind") == "known" and f.get("property") == pid}


# --------------------------------------------------------------------------
# evidence
# --------------------------------------------------------------------------

def write_evidence(pid, tier, seed, level, coverage, wall, violations, assumptions):
    ev = {"property_id": pid, "tier": tier, "seed": seed, "level": level, "coverage": coverage,
          "assumptions": assumptions, "wall_s": round(wall, 2), "violations": violations}
    evdir = os.path.join(ROOT, "evidence") if not OUT_SUFFIX else os.path.join(ROOT, "out", "evidence" + OUT_SUFFIX)
    os.makedirs(evdir, exist_ok=True)
    with open(os.path.join(evdir, pid + ".json"), "w") as f:
        json.dump(ev, f, indent=1, sort_keys=True)
        f.write("\n")


def report(pid, d, violations, known_hits, replay_writer):
    """Print KNOWN-FINDING / VIOLATION lines; returns the exit code."""
    for sig, what in sorted(known_hits.items()):
        log("KNOWN-FINDING: property=%s %s" % (pid, what))
    if violations:
        vd = os.path.join(d, "violations")
        os.makedirs(vd, exist_ok=True)
        for i, v in enumerate(violations[:20]):
            p = os.path.join(vd, "%d.json" % i)
            replay_writer(p, v)
            log("VIOLATION property=%s replay=%s" % (pid, p))
        if len(violations) > 20:
            log("(%d further violating scenarios not written)" % (len(violations) - 20))
        return 1
    return 0
