"""MANIFEST.setup_cmd: build the harness once (warms the Go build caches, incl. the race runtime) and parse every spec."""
import os, subprocess, shutil
from core import *

def run():
    d = outdir("setup")
    build_harness(d)
    try:
        build_harness(d, race=True)
    except ToolFailure as e:
        log("warning: race build failed: %s" % e)
    sp = os.path.join(d, "spec")
    bad = 0
    # FlytRetryTimedProof imports the proof system's standard module (the C20 check puts it there the same way)
    tlaps = os.path.join(TLAPM_STDLIB, "TLAPS.tla")
    if os.path.exists(tlaps):
        shutil.copy(tlaps, sp)
    for f in sorted(os.listdir(sp)):
        if f.endswith(".tla") and f != "TLAPS.tla":
            p = subprocess.run(["java", "-cp", TLA_CP, "tla2sany.SANY", f], cwd=sp, stdout=subprocess.PIPE, stderr=subprocess.STDOUT, text=True)
            ok = p.returncode == 0 and "error" not in p.stdout.lower().replace("errors: 0", "")
            log("sany %-24s %s" % (f, "ok" if ok else "FAILED"))
            if not ok:
                bad += 1
                log(p.stdout[-1500:])
    shutil.rmtree(d, ignore_errors=True)
    return 2 if bad else 0
