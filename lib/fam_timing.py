"""Timing family: C20 (retry wait honoured, no wait before the first / after the last attempt, interruptible)."""
import json, os, time
from core import *
import fam_batch

UPPER_CLAUSES = {"noWaitBefore", "noWaitAfter", "promptCancel", "terminated"}   # timing-dependent direction: must reproduce


def run(pid, tier, seed):
    t0 = time.time()
    d = outdir(pid)
    part = collect(pid, tier, seed, d, None)
    return fam_batch.finish(pid, tier, seed, d, t0, [("timing", part)])


def collect(pid, tier, seed, d, binp):
    """Timed runs judged for C20 (waits), C02 (fallback only after the budget) or C05 (cancellation from outside during a wait)."""
    states = transitions = 0
    mc_info = []
    combos = [(3, 2, 8), (2, 1, 6)] if tier == "quick" else [(3, 2, 9), (4, 2, 11), (3, 0, 5), (2, 3, 9)]
    for n, w, mt in combos:
        cfg = ("SPECIFICATION TSpec\nCONSTANTS\n  N = %d\n  W = %d\n  MaxTime = %d\n"
               "INVARIANTS WaitHonoured WaitOnlyBetween PromptReturn NoAttemptAfterCancelledWait AttemptBound\nCHECK_DEADLOCK FALSE\n" % (n, w, mt))
        lines, wall = run_tlc(d, "FlytRetryTimed", cfg, workers=8, heap="4g", tag="mc_timed_%d_%d" % (n, w), timeout=900)
        st = tlc_stats(lines)
        states += st["distinct"]; transitions += st["generated"]
        mc_info.append({"spec": "FlytRetryTimed", "N": n, "W": w, "MaxTime": mt, "distinct_states": st["distinct"], "states_generated": st["generated"], "wall_s": round(wall, 1)})
        log("mc timed retry loop N=%d W=%d: states=%d (%.1fs)" % (n, w, st["distinct"], wall))
    if pid == "C20":
        # unbounded: the inductive invariant of FlytRetryTimedProof.tla, proved with TLAPS for every N, W and clock bound
        # (and model-checked by TLC on a bounded instance, so that invariant and proof speak about the same thing)
        nobl, wall = run_tlapm(d, "FlytRetryTimedProof")
        log("tlapm FlytRetryTimedProof: all %d obligations proved (%.1fs): WaitHonoured, WaitOnlyBetween, AttemptBound, PromptReturn, "
            "NoAttemptAfterCancelledWait for every N, W" % (nobl, wall))
        lines, wall2 = run_tlc(d, "FlytRetryTimedProof", "SPECIFICATION TSpec\nCONSTANTS\n  N = 3\n  W = 2\n  MaxTime = 8\nINVARIANT Inv\nCHECK_DEADLOCK FALSE\n",
                               workers=4, heap="2g", tag="mc_timed_inv", timeout=600)
        st = tlc_stats(lines)
        states += st["distinct"]; transitions += st["generated"]
        mc_info.append({"spec": "FlytRetryTimedProof (TLAPS)", "obligations_proved": nobl, "wall_s": round(wall, 1),
                        "theorem": "TSpec => [](WaitHonoured /\\ WaitOnlyBetween /\\ AttemptBound /\\ PromptReturn /\\ NoAttemptAfterCancelledWait), all N, W \\in Nat",
                        "inductive_invariant_also_model_checked": {"N": 3, "W": 2, "MaxTime": 8, "distinct_states": st["distinct"]}})
    binp = binp or build_harness(d)
    hist = os.path.join(d, "timing_hist.ndjson")
    run_harness(binp, ["timing", "--out", hist, "--seed", str(seed), "--count", "10" if tier == "quick" else "100"])
    fails, _, summ = judge_histories(d, "TPTiming", hist, pid, shards=2)
    log("judged %d timed histories (%d waits between attempts, %d cancellations during a wait): %d failing" %
        (summ.get("scenarios", 0), summ.get("waits", 0), summ.get("cancels", 0), len(fails)))
    violations, known_hits, discarded = [], {}, 0
    if fails:
        scns = load_scenarios(hist)
        known = known_signatures(pid)
        rp = os.path.join(d, "recheck.ndjson")
        with open(rp, "w") as f:
            for i in sorted({f_[0] for f_ in fails}):
                f.write(json.dumps(scns[i]) + "\n")
        # upper bounds can be exceeded by a scheduling stall: they count only if exceeded on three consecutive re-executions
        rep = None
        for k in range(3):
            h2 = os.path.join(d, "recheck_hist%d.ndjson" % k)
            run_harness(binp, ["timing", "--out", h2, "-x", "replay=" + rp])
            f2, _, _ = judge_histories(d, "TPTiming", h2, pid, shards=1)
            cur = {(x[0], c) for x in f2 for c in x[2]}
            rep = cur if rep is None else rep & cur
        for scn_id, prop, clauses in fails:
            confirmed = [c for c in clauses if c not in UPPER_CLAUSES or (scn_id, c) in rep]
            if not confirmed:
                discarded += 1
                continue
            c = scns[scn_id]["cfg"]
            sig = "%s:%s:%s" % (pid, "+".join(sorted(confirmed)), c["kind"])
            if sig in known:
                known_hits[sig] = known[sig]
            else:
                violations.append({"property": pid, "family": "timing", "clauses": confirmed, "signature": sig, "scenario": scns[scn_id]})
    samples = []
    with open(hist) as f:
        for i, line in enumerate(f):
            if i % 31 == 0 and len(samples) < 4:
                r = json.loads(line)
                samples.append({"scn": r["scn"], "cfg": r["cfg"], "history": r["h"][:20]})
    part = dict(states=states, transitions=transitions, scenarios=summ.get("scenarios", 0), events=summ.get("events", 0),
                hits={"waits_between_attempts": summ.get("waits", 0), "cancellations_during_wait": summ.get("cancels", 0),
                      "long_wait_scenarios": summ.get("upper", 0), "stalls_discarded": discarded},
                violations=violations, known_hits=known_hits, drifts=0, mc_info=mc_info, samples=samples, exported=0,
                modes="waits 1/5/20/50 ms x budgets 2..5 x failure sequences; 1.2 s wait (upper bounds); 1 h and 2 s waits cancelled 20 ms after attempt k", count=summ.get("scenarios", 0))
    return part


def replay(bundle):
    pid = bundle["property"]
    d = outdir("replay_" + pid)
    binp = build_harness(d)
    rp = os.path.join(d, "replay.ndjson")
    with open(rp, "w") as f:
        f.write(json.dumps(bundle["scenario"]) + "\n")
    bad = 0
    for k in range(3):
        h2 = os.path.join(d, "replay_hist.ndjson")
        run_harness(binp, ["timing", "--out", h2, "-x", "replay=" + rp])
        f2, _, _ = judge_histories(d, "TPTiming", h2, pid, shards=1)
        bad += 1 if f2 else 0
    if bad == 3:
        log("VIOLATION property=%s replay=%s (3 of 3 re-executions)" % (pid, bundle.get("_path", "?")))
        return 1
    log("replay: %d of 3 re-executions violate %s" % (bad, pid))
    return 0
