"""Batch family checks: C06, C07, C08, C09, C11 and the batch parts of C02, C04, C18."""
import json, os, time
from core import *

BATCH_INVS = ("TypeOK ConcurrencyBound WgCount AllSettledAtPost NoFakeSuccess AttemptBound NoEmptyAction "
              "InvC06 InvC07 InvC02 InvC08 InvC09 InvC11 InvC18 InvC04 InvC17")

# (Family, MaxItems, MaxC, MaxN, export)
PLAN = {
    "C06": dict(mc_q=[("seq", 3, 1, 2, True), ("gated", 3, 2, 1, True), ("gatedcancel", 2, 2, 1, True), ("eres", 2, 2, 2, True), ("conc", 2, 2, 2, False)],
                mc_t=[("seq", 4, 1, 2, True), ("gated", 4, 3, 1, True), ("gated", 3, 2, 2, True), ("gatedcancel", 3, 2, 2, True), ("conc", 3, 2, 2, False)],
                gen_q=("continue,stop,cancel,single,empty,waves,storm,wait,cancelfeed,dup,erritems", 60), gen_t=("continue,stop,cancel,single,empty,waves,storm,wait,cancelfeed,dup,erritems", 1500)),
    "C07": dict(mc_q=[("seq", 3, 1, 2, True), ("gated", 3, 2, 2, True), ("conc", 2, 2, 2, False)],
                mc_t=[("seq", 4, 1, 3, True), ("gated", 3, 2, 2, True), ("gated", 4, 3, 1, True), ("conc", 3, 2, 2, False)],
                gen_q=("continue,waves,storm,wait,rebudget,fbhold,dup,innerflow,erritems", 90), gen_t=("continue,waves,storm,wait,rebudget,fbhold,dup,innerflow,erritems", 2600)),
    "C08": dict(mc_q=[("gated", 3, 2, 1, True), ("conc", 2, 2, 2, False)],
                mc_t=[("gated", 4, 3, 1, True), ("conc", 3, 2, 2, False), ("conc", 3, 3, 1, False)],
                gen_q=("barrier,continue,rerun,backoff,storm,longbatch", 60), gen_t=("barrier,continue,stop,rerun,backoff,storm,longbatch", 1000)),
    "C09": dict(mc_q=[("seq", 3, 1, 2, True), ("gated", 3, 2, 2, True), ("gatedcancel", 2, 2, 1, True), ("conc", 2, 2, 2, False)],
                mc_t=[("seq", 4, 1, 2, True), ("gated", 4, 3, 1, True), ("gated", 3, 2, 2, True), ("gatedcancel", 3, 2, 2, True), ("conc", 3, 2, 2, False)],
                gen_q=("stop,cancel,bigstop,onestop,stoprace,deadlinewait,rerunstop", 80), gen_t=("stop,cancel,bigstop,onestop,stoprace,deadlinewait,rerunstop", 2000)),
    "C11": dict(mc_q=[("gatedcancel", 2, 2, 2, True), ("wait", 2, 2, 2, True), ("cancel", 2, 2, 1, False)],
                mc_t=[("gatedcancel", 3, 2, 2, True), ("wait", 3, 2, 2, True), ("cancel", 3, 2, 2, False)],
                gen_q=("cancel,waitcancel,bigcancel", 120), gen_t=("cancel,waitcancel,bigcancel", 3000)),
    # batch parts of engine-family properties
    "C02": dict(mc_q=[("seq", 2, 1, 3, True), ("gated", 2, 2, 2, True)], mc_t=[("seq", 3, 1, 4, True), ("gated", 3, 2, 3, True)],
                gen_q=("continue,stop,storm,waves,rebudget,erritems", 60), gen_t=("continue,stop,storm,waves,rebudget,erritems", 1500)),
    "C03": dict(mc_q=[("empty", 0, 2, 1, True)], mc_t=[("empty", 0, 2, 1, True), ("seq", 2, 1, 1, True)],
                gen_q=("empty,single", 60), gen_t=("empty,single,continue", 600)),
    "C04": dict(mc_q=[("seq", 2, 1, 1, True)], mc_t=[("seq", 3, 1, 2, True), ("gated", 2, 2, 1, True)],
                gen_q=("continue", 40), gen_t=("continue,stop", 800)),
    "C17": dict(mc_q=[("eres", 2, 2, 2, True), ("gatedcancel", 2, 2, 1, True)], mc_t=[("eres", 3, 2, 2, True), ("seq", 3, 1, 2, True), ("gatedcancel", 3, 2, 2, True)],
                gen_q=("continue,stop,cancel,storm,erritems", 60), gen_t=("continue,stop,cancel,storm,erritems", 1500)),
    "C18": dict(mc_q=[("seq", 2, 1, 1, True), ("empty", 0, 2, 1, True)], mc_t=[("seq", 3, 1, 2, True), ("empty", 0, 2, 1, True), ("gated", 2, 2, 1, True)],
                gen_q=("empty,single,continue", 50), gen_t=("empty,single,continue,stop", 800)),
}


# clauses whose antecedent assumes that unobservable internal steps settled within the harness's pause
WATCHDOG_CLAUSES = {"usable", "terminates"}
TIMING_CLAUSES = {"strictGated", "noRetryAfterCancelledWait", "noHoldUp", "usable", "terminates"}   # (the last two rest on the harness's own watchdogs)


def mc_cfg(fam, items, c, n, export):
    return ("SPECIFICATION MCSpec\nCONSTANTS\n  Family = \"%s\"\n  MaxItems = %d\n  MaxC = %d\n  MaxN = %d\n  DoExport = %s\n"
            "INVARIANTS %s Export\nCHECK_DEADLOCK FALSE\n" % (fam, items, c, n, "TRUE" if export else "FALSE", BATCH_INVS))


def signature(pid, clauses, scn):
    c = scn["cfg"]
    feats = ["c=%s" % ("0" if c["c"] == 0 else ">0"), "stop" if c["stopmode"] else "continue"]
    if c["n"] == 0:
        feats.append("empty")
    if c.get("cancel") or c.get("ctx0"):
        feats.append("cancel")
    return "%s:%s:%s" % (pid, "+".join(sorted(clauses)), ",".join(feats))


def collect(pid, tier, seed, d, binp):
    plan = PLAN[pid]
    mcs = plan["mc_q"] if tier == "quick" else plan["mc_t"]
    modes, count = plan["gen_q"] if tier == "quick" else plan["gen_t"]
    states = transitions = 0
    scn_lines, mc_info = [], []
    for fam, items, c, n, export in mcs:
        tag = "mcb_%s_%d_%d_%d" % (fam, items, c, n)
        lines, wall = run_tlc(d, "MCBatch", mc_cfg(fam, items, c, n, export), workers=10, heap="6g", tag=tag, timeout=1500)
        st = tlc_stats(lines)
        ex = export_lines(lines)
        states += st["distinct"]
        transitions += st["generated"]
        scn_lines += ex
        mc_info.append({"spec": "FlytBatch", "family": fam, "MaxItems": items, "MaxC": c, "MaxN": n, "distinct_states": st["distinct"],
                        "states_generated": st["generated"], "depth": st["depth"], "behaviours_exported": len(ex), "wall_s": round(wall, 1)})
        log("mc batch/%-12s n<=%d c<=%d N<=%d states=%d behaviours=%d (%.1fs)" % (fam, items, c, n, st["distinct"], len(ex), wall))
    scnp = os.path.join(d, "batch_scenarios.ndjson")
    with open(scnp, "w") as f:
        for s in scn_lines:
            f.write(s + "\n")
    hist = os.path.join(d, "batch_hist.ndjson")
    cap = 2500 if tier == "quick" else 10000
    crash = run_harness(binp, ["batch", "--scn", scnp, "--out", hist, "--seed", str(seed), "--count", str(count), "--modes", modes,
                               "-x", "maxscn=%d,bigcount=%d%s" % (cap, 6 if tier == "quick" else 40, ",only=continue" if pid == "C07" else "")],
                        tolerate_crash=True)
    if crash:
        # keep only complete lines of what was recorded before the crash
        with open(hist) as f:
            good = [l for l in f.read().split("\n") if l.endswith("}")]
        with open(hist, "w") as f:
            f.write("\n".join(good) + ("\n" if good else ""))
        log("the harness process crashed inside the library under test; judging the %d histories recorded before the crash" % len(good))
    fails, drifts, summ = judge_histories(d, "TPBatch", hist, pid, shards=8)
    if crash and not [f_ for f_ in fails if f_[1] == pid]:
        raise ToolFailure(crash)
    log("judged %d batch histories (%d events): %d failing, %d drifting" % (summ.get("scenarios", 0), summ.get("events", 0), len(fails), len(drifts)))

    # code -> spec: recorded histories (of a size TLC can search) must be explained by FlytBatch
    def small(r):
        c = r["cfg"]
        return (r.get("fam") == "batch" and c["via"] != "flow" and c["n"] <= 6 and c["c"] <= 3 and c["sched"] != "barrier"
                and not any(e["ev"] in ("stuck", "hang", "panic", "routed", "innerbad") for e in r["h"]))
    tv_n, tv_ok, tv_states, tv_trans = trace_validate(d, "TraceBatch", hist, keep=small, shards=8, limit=1500 if tier == "quick" else 12000)
    states += tv_states
    transitions += tv_trans
    unexplained = tv_n - len(tv_ok)
    mc_info.append({"spec": "TraceBatch (trace validation of recorded histories, silent internal steps inferred)", "histories": tv_n,
                    "explained": len(tv_ok), "distinct_states": tv_states, "states_generated": tv_trans})
    log("trace validation against FlytBatch: %d of %d histories explained" % (len(tv_ok), tv_n))

    violations, known_hits, stalls = [], {}, 0
    if fails:
        scns = load_scenarios(hist)
        known = known_signatures(pid)
        # the recorded history is the evidence (concurrent runs are not replayable bit for bit):
        # re-validate the failing histories in a fresh TLC run, and re-execute them for the record
        # (a change that breaks the property typically fails thousands of scenarios: confirm a sample)
        bad_ids = sorted({f[0] for f in fails if f[1] == pid})[:40]
        fails = [f for f in fails if f[0] in set(bad_ids)]
        rp = os.path.join(d, "batch_recheck.ndjson")
        with open(rp, "w") as f:
            for i in bad_ids:
                f.write(json.dumps(scns[i]) + "\n")
        fails2, _, _ = judge_histories(d, "TPBatch", rp, pid, shards=2)
        again = {f[0] for f in fails2 if f[1] == pid}
        # clauses that rely on unobservable internal steps having settled (stop flag set before the next
        # release) count only if they fail again with much longer settle pauses: a worker that ignores
        # the flag reproduces always, a scheduling stall does not
        reproduced = None
        for settle in (20, 100, 400):
            hist2 = os.path.join(d, "batch_reexec_%d.ndjson" % settle)
            run_harness(binp, ["batch", "--out", hist2, "--seed", str(seed + settle), "-x", "replay=" + rp + ",settle=%d" % settle])
            fails3, _, _ = judge_histories(d, "TPBatch", hist2, pid, shards=2)
            rep = {(f[0], c) for f in fails3 if f[1] == pid for c in f[2]}
            reproduced = rep if reproduced is None else (reproduced & rep)
            reproduced_once = rep if settle == 20 else (reproduced_once | rep)
        for scn_id, prop, clauses in fails:
            if prop != pid:
                continue
            if scn_id not in again:
                raise ToolFailure("history %d failed once but not when re-validated by a fresh TLC run" % scn_id)
            timing = [c for c in clauses if c in TIMING_CLAUSES]
            hard = [c for c in clauses if c not in TIMING_CLAUSES]
            # (the two clauses that rest on a watchdog - a hang - count when the scenario hangs again in at least one of the three
            # re-executions: a hang that depends on a race does not come back every time, a scheduling stall hardly ever does)
            confirmed = hard + [c for c in timing if (scn_id, c) in reproduced or (c in WATCHDOG_CLAUSES and (scn_id, c) in reproduced_once)]
            if not confirmed:
                stalls += 1
                continue
            sig = signature(pid, confirmed, scns[scn_id])
            if sig in known:
                known_hits[sig] = known[sig]
            else:
                violations.append({"property": pid, "family": "batch", "clauses": confirmed, "signature": sig,
                                   "reproduced_on_reexecution": any((scn_id, c) in reproduced for c in confirmed),
                                   "scenario": scns[scn_id]})
    samples = []
    try:
        with open(hist) as f:
            for i, line in enumerate(f):
                if i in (0, 1) or (i % 499 == 0 and len(samples) < 4):
                    r = json.loads(line)
                    cfg = dict(r["cfg"]); cfg.pop("script", None)
                    samples.append({"scn": r["scn"], "src": r["src"], "cfg": cfg, "history": r["h"][:30]})
    except Exception:
        pass
    return dict(states=states, transitions=transitions, scenarios=summ.get("scenarios", 0), events=summ.get("events", 0),
                hits={k: v for k, v in summ.items() if k not in ("scenarios", "events")}, violations=violations, known_hits=known_hits,
                drifts=len(drifts) + unexplained, mc_info=mc_info, samples=samples, exported=len(scn_lines), modes=modes, count=count,
                scheduling_stalls_discarded=stalls)


# vacuity control: the histories judged by a check must have exercised the situations its property is about
REQUIRED_HITS = {
    "C02": {"engine": ["retried", "fallback"], "batch": ["retried"]},
    "C03": {"engine": ["multiNode"]},
    "C04": {"engine": ["failedRun", "multiNode"]},
    "C05": {"engine": ["cancelled", "multiNode"]},
    "C10": {"engine": ["nested"]},
    "C17": {"engine": ["funcNode", "eres"]},
    "C18": {"engine": ["emptyAct"], "batch": ["emptyBatch"]},
    "C06": {"batch": ["concurrent", "overlapped", "failedItem"]},
    "C07": {"batch": ["retried", "fallback", "failedItem", "overlapped"]},
    "C08": {"batch": ["overlapped"], "pool": ["overlapped", "nonPositive"]},
    "C09": {"batch": ["stopmode", "failedItem", "skipped"]},
    "C11": {"batch": ["cancelled", "concurrent"]},
    "C12": {"pool": ["multiSubmitter", "multiRound", "beyondQueue", "overlapped", "nonPositive"]},
    "C13": {"storeconc": ["overlapping_operations"]},
    "C14": {"store": ["snapshots", "mutated", "merges", "clears", "nils", "long"]},
    "C20": {"timing": ["waits_between_attempts", "cancellations_during_wait", "long_wait_scenarios"]},
}


def finish(pid, tier, seed, d, t0, parts, level="model_checking"):
    """Merge the results of one or several families into the evidence file and the exit code."""
    found = any(p["violations"] or p["known_hits"] for _, p in parts)
    for fam, keys in REQUIRED_HITS.get(pid, {}).items():
        for name, p in parts:
            if name == fam and not found:      # (a run that found violations may have been cut short by the hang budget)
                missing = [k for k in keys if not p["hits"].get(k)]
                if missing:
                    raise ToolFailure("vacuous run: no %s history of this run exercised %s" % (fam, ", ".join(missing)))
    violations, known_hits = [], {}
    cov = {"states": 0, "transitions": 0, "traces_validated_against_impl": 0, "events_validated": 0,
           "behaviours_exported_by_tlc_and_replayed": 0, "replayed_histories_differing_from_spec_behaviour": 0,
           "model_checking": [], "histories_exercising": {}, "samples": [], "generator": {}, "exhaustive": False}
    for name, p in parts:
        violations += p["violations"]
        known_hits.update(p["known_hits"])
        cov["states"] += p["states"]
        cov["transitions"] += p["transitions"]
        cov["traces_validated_against_impl"] += p["scenarios"]
        cov["events_validated"] += p["events"]
        cov["behaviours_exported_by_tlc_and_replayed"] += p["exported"]
        cov["replayed_histories_differing_from_spec_behaviour"] += p["drifts"]
        cov["model_checking"] += p["mc_info"]
        cov["histories_exercising"][name] = p["hits"]
        cov["samples"] += p["samples"][:3]
        cov["generator"][name] = {"modes": p["modes"], "base_scenarios_per_mode": p["count"]}
        if p["drifts"]:
            log("DRIFT: %d replayed %s behaviours differ from the specification's (not a verdict)" % (p["drifts"], name))
    cov["explanation"] = ("TLC checked the %s predicate (and the design invariants) on every behaviour of the operational specs in the listed "
                          "bounded families; exported behaviours were replayed on the real library (gated schedules for concurrent "
                          "batches); seeded random scenarios beyond the bounds were executed; TLC evaluated the predicate on every "
                          "recorded history." % pid)
    write_evidence(pid, tier, seed, level, cov, time.time() - t0, len(violations),
                   ["callbacks and public call/return are the only observation points (no source hooks)",
                    "event order: one mutex-protected log; entry events are logged after entering a callback and exit events before leaving it",
                    "TLC explores the operational specs only within the stated bounds"])

    def writer(path, v):
        with open(path, "w") as f:
            json.dump(v, f, indent=1)
    return report(pid, d, violations, known_hits, writer)


def run(pid, tier, seed):
    t0 = time.time()
    d = outdir(pid)
    binp = build_harness(d)
    parts = [("batch", collect(pid, tier, seed, d, binp))]
    if pid == "C11":
        import fam_engine
        parts.append(("engine", fam_engine.collect(pid, tier, seed, d, binp)))   # batch nodes as steps of a (looping) flow
    if pid == "C07":
        import fam_timing
        parts.append(("timing", fam_timing.collect(pid, tier, seed, d, binp)))   # per-item budgets under waits and far deadlines
    if pid == "C08":
        import fam_pool
        parts.append(("pool", fam_pool.collect(pid, tier, seed, d)))   # the worker pool's own bound
    return finish(pid, tier, seed, d, t0, parts)


def replay(bundle):
    pid = bundle["property"]
    d = outdir("replay_" + pid)
    binp = build_harness(d)
    rp = os.path.join(d, "replay.ndjson")
    with open(rp, "w") as f:
        f.write(json.dumps(bundle["scenario"]) + "\n")
    log("re-validating the recorded history ...")
    fails, _, _ = judge_histories(d, "TPBatch", rp, pid, shards=1)
    rc = 0
    if any(f[1] == pid for f in fails):
        log("recorded history violates %s: %s" % (pid, fails))
        rc = 1
    hist = os.path.join(d, "replay_hist.ndjson")
    for attempt in range(5):
        run_harness(binp, ["batch", "--out", hist, "--seed", str(attempt + 1), "-x", "replay=" + rp])
        fails2, _, _ = judge_histories(d, "TPBatch", hist, pid, shards=1)
        if any(f[1] == pid for f in fails2):
            log("VIOLATION property=%s replay=%s (reproduced on re-execution %d: %s)" % (pid, bundle.get("_path", "?"), attempt + 1, fails2))
            return 1
    log("re-execution on the current tree: property %s holds on this scenario (5 runs)" % pid)
    return 0
