"""Table families: C15 (typed accessors), C16 (Bind), C19 (configuration)."""
import json, os, time
from core import *
import fam_batch


def run(pid, tier, seed):
    t0 = time.time()
    d = outdir(pid)
    if pid == "C15":
        spec, cfgtxt, fam = "FlytAccess", "SPECIFICATION CSpec\nINVARIANTS CellInv ExportCell\nCHECK_DEADLOCK FALSE\n", "access"
        count = 300 if tier == "quick" else 20000
    elif pid == "C16":
        spec, cfgtxt, fam = "FlytBind", "SPECIFICATION BSpec\nINVARIANT TableConsistent\nCHECK_DEADLOCK FALSE\n", "bind"
        count = 150 if tier == "quick" else 5000
    else:
        ms = 3   # (four steps with all forms and styles: > 25 min of TLC; the thorough tier spends its time on random sequences of up to 6 steps instead)
        spec, fam = "FlytConfig", "config"
        cfgtxt = "SPECIFICATION CfgSpec\nCONSTANT MaxSteps = %d\nINVARIANTS LastWins Untouched FormsEquivalent ExportSeq\nCHECK_DEADLOCK FALSE\n" % ms
        count = 400 if tier == "quick" else 20000
    lines, wall = run_tlc(d, spec, cfgtxt, workers=8, heap="6g", tag="mc_" + fam, timeout=1500)
    st = tlc_stats(lines)
    ex = export_lines(lines)
    log("mc %s: states=%d exported=%d (%.1fs)" % (spec, st["distinct"], len(ex), wall))
    scnp = os.path.join(d, fam + "_scenarios.ndjson")
    with open(scnp, "w") as f:
        for s in ex:
            f.write(s + "\n")
    binp = build_harness(d)
    hist = os.path.join(d, fam + "_hist.ndjson")
    args = [fam, "--out", hist, "--seed", str(seed), "--count", str(count)]
    if ex:
        args += ["--scn", scnp, "-x", "maxscn=%d" % (2500 if tier == "quick" else 60000)]
    run_harness(binp, args)
    fails, drifts, summ = judge_histories(d, "TPTables", hist, pid, shards=8)
    log("judged %d %s scenarios (%d calls): %d failing" % (summ.get("scenarios", 0), fam, summ.get("events", 0), len(fails)))
    violations, known_hits = [], {}
    if fails:
        scns = load_scenarios(hist)
        known = known_signatures(pid)
        with open(os.path.join(d, "tlc_TPTables_judge0.log")) as f:
            pass
        for scn_id, prop, clauses in fails:
            r = scns[scn_id]
            what = r["cfg"].get("class") or r["cfg"].get("val") or r["cfg"].get("kind")
            sig = "%s:%s:%s" % (pid, "+".join(sorted(clauses)), what)
            if sig in known:
                known_hits[sig] = known[sig]
            else:
                bad_calls = [e for e in r["h"] if e.get("panicked")] [:5]
                violations.append({"property": pid, "family": fam, "clauses": clauses, "signature": sig, "panicking_calls": bad_calls, "scenario": r})
    samples = []
    with open(hist) as f:
        for i, line in enumerate(f):
            if i in (0, 7) or (i % 401 == 0 and len(samples) < 4):
                r = json.loads(line)
                samples.append({"scn": r["scn"], "src": r["src"], "cfg": r["cfg"], "calls": r["h"][:12]})
    part = dict(states=st["distinct"], transitions=st["generated"], scenarios=summ.get("scenarios", 0), events=summ.get("events", 0),
                hits={}, violations=violations, known_hits=known_hits, drifts=0,
                mc_info=[{"spec": spec, "distinct_states": st["distinct"], "states_generated": st["generated"], "cells_or_sequences_exported": len(ex), "wall_s": round(wall, 1)}],
                samples=samples, exported=len(ex), modes="random values / sequences", count=count)
    return fam_batch.finish(pid, tier, seed, d, t0, [(fam, part)])


def collect_defaults(pid, tier, seed, d, binp):
    """Partial nodes (FlytDefaults.tla): TLC checks the table's consistency and enumerates its cells; every cell is built
    and run on the real library; TLC judges the logged facts against the cell."""
    lines, wall = run_tlc(d, "FlytDefaults", "SPECIFICATION DSpec\nINVARIANTS DCellInv ExportCell\nCHECK_DEADLOCK FALSE\n", workers=4, heap="2g",
                          tag="mc_defaults", timeout=600)
    st = tlc_stats(lines)
    ex = export_lines(lines)
    log("mc FlytDefaults: cells=%d (%.1fs)" % (len(ex), wall))
    scnp = os.path.join(d, "defaults_scenarios.ndjson")
    with open(scnp, "w") as f:
        for s in ex:
            f.write(s + "\n")
    hist = os.path.join(d, "defaults_hist.ndjson")
    run_harness(binp, ["defaults", "--out", hist, "--scn", scnp])
    fails, _, summ = judge_histories(d, "TPTables", hist, pid, shards=2)
    log("judged %d partial-node cells: %d failing" % (summ.get("scenarios", 0), len(fails)))
    violations, known_hits = [], {}
    if fails:
        scns = load_scenarios(hist)
        known = known_signatures(pid)
        for scn_id, prop, clauses in fails:
            r = scns[scn_id]
            e = r["h"][0]
            sig = "%s:%s:%s" % (pid, "+".join(sorted(clauses)), e["kind"])
            if sig in known:
                known_hits[sig] = known[sig]
            else:
                violations.append({"property": pid, "family": "defaults", "clauses": clauses, "signature": sig, "scenario": r})
    samples = []
    with open(hist) as f:
        for i, line in enumerate(f):
            if i % 97 == 0 and len(samples) < 3:
                samples.append(json.loads(line)["h"][0])
    return dict(states=st["distinct"], transitions=st["generated"], scenarios=summ.get("scenarios", 0), events=summ.get("events", 0),
                hits={"partial_node_cells": summ.get("scenarios", 0)}, violations=violations, known_hits=known_hits, drifts=0,
                mc_info=[{"spec": "FlytDefaults", "distinct_states": st["distinct"], "cells_exported": len(ex), "wall_s": round(wall, 1)}],
                samples=samples, exported=len(ex), modes="every cell of the table", count=len(ex))


def replay(bundle):
    pid, fam = bundle["property"], bundle["family"]
    if fam == "defaults":
        import fam_engine
        return fam_engine.run(pid, "quick", 1)
    log("table scenarios are deterministic: re-running the whole check for %s" % pid)
    return run(pid, "quick", 1)
