"""Store families: C13 (linearizability + race freedom) and C14 (map semantics, isolated snapshots)."""
import glob, json, os, re, time
from core import *
import fam_batch


def mc_store_cfg(maxops, vals, export):
    return ("SPECIFICATION SSpec\nCONSTANTS\n  KeySet = {1, 2}\n  ValSet = %s\n  MaxOps = %d\n  DoExport = %s\n"
            "INVARIANTS Consistent InvC14 %s\nCHECK_DEADLOCK FALSE\n" % (vals, maxops, "TRUE" if export else "FALSE", "Export" if export else ""))


def run_c14(pid, tier, seed):
    t0 = time.time()
    d = outdir(pid)
    states = transitions = 0
    mc_info, scn_lines = [], []
    plans = [(3, "{0, 5}", True)] if tier == "quick" else [(3, "{0, 4, 5}", True), (4, "{0, 5}", True)]
    for maxops, vals, export in plans:
        lines, wall = run_tlc(d, "MCStore", mc_store_cfg(maxops, vals, export), workers=12, heap="8g", tag="mcs_%d" % maxops, timeout=1500)
        st = tlc_stats(lines)
        ex = export_lines(lines)
        states += st["distinct"]; transitions += st["generated"]; scn_lines += ex
        mc_info.append({"spec": "FlytStore", "keys": 2, "values": vals, "MaxOps": maxops, "distinct_states": st["distinct"],
                        "states_generated": st["generated"], "behaviours_exported": len(ex), "wall_s": round(wall, 1)})
        log("mc store MaxOps=%d vals=%s states=%d behaviours=%d (%.1fs)" % (maxops, vals, st["distinct"], len(ex), wall))
    scnp = os.path.join(d, "store_scenarios.ndjson")
    with open(scnp, "w") as f:
        for s in scn_lines:
            f.write(s + "\n")
    binp = build_harness(d)
    hist = os.path.join(d, "store_hist.ndjson")
    cap, count = (4000, 300) if tier == "quick" else (60000, 6000)
    run_harness(binp, ["store", "--scn", scnp, "--out", hist, "--seed", str(seed), "--count", str(count), "-x", "maxscn=%d" % cap])
    fails, drifts, summ = judge_histories(d, "TPStore", hist, pid, shards=8)
    log("judged %d store histories (%d events): %d failing, %d drifting" % (summ.get("scenarios", 0), summ.get("events", 0), len(fails), len(drifts)))
    violations, known_hits = [], {}
    if fails:
        scns = load_scenarios(hist)
        known = known_signatures(pid)
        bad_ids = sorted({f[0] for f in fails})
        rp = os.path.join(d, "recheck.ndjson")
        with open(rp, "w") as f:
            for i in bad_ids:
                f.write(json.dumps(scns[i]) + "\n")
        hist2 = os.path.join(d, "recheck_hist.ndjson")
        run_harness(binp, ["store", "--out", hist2, "-x", "replay=" + rp])
        fails2, _, _ = judge_histories(d, "TPStore", hist2, pid, shards=2)
        again = {f[0] for f in fails2}
        for scn_id, prop, clauses in fails:
            if scn_id not in again:
                raise ToolFailure("store history %d failed once but not on re-execution (sequential scenario!)" % scn_id)
            sig = "%s:%s" % (pid, "+".join(sorted(clauses)))
            if sig in known:
                known_hits[sig] = known[sig]
            else:
                violations.append({"property": pid, "family": "store", "clauses": clauses, "signature": sig, "scenario": scns[scn_id]})
    samples = []
    with open(hist) as f:
        for i, line in enumerate(f):
            if i in (0, 1) or (i % 1009 == 0 and len(samples) < 4):
                r = json.loads(line)
                samples.append({"scn": r["scn"], "src": r["src"], "history": r["h"][:25]})
    part = dict(states=states, transitions=transitions, scenarios=summ.get("scenarios", 0), events=summ.get("events", 0),
                hits={k: v for k, v in summ.items() if k not in ("scenarios", "events")}, violations=violations, known_hits=known_hits,
                drifts=len(drifts), mc_info=mc_info, samples=samples, exported=len(scn_lines), modes="random sequences up to 200 ops / 12 keys", count=count)
    return fam_batch.finish(pid, tier, seed, d, t0, [("store", part)])


def lin_check(d, hist, tag):
    """TLC searches linearization points for every history of the file; returns (ok ids, TLC stats)."""
    lines, wall = run_tlc(d, "FlytStoreConc", "SPECIFICATION Spec\nCHECK_DEADLOCK FALSE\n", env={"TRACE": hist}, workers=1, heap="6g",
                          tag=tag, timeout=1800)
    ok = set()
    for l in lines:
        m = re.match(r'<<"LIN-OK", (\d+)>>', l)
        if m:
            ok.add(int(m.group(1)))
    return ok, tlc_stats(lines), wall


def lock_cfg(procs, perkey=False):
    return ("SPECIFICATION LSpec\nCONSTANTS\n  Procs = %s\n  KeySet = {1, 2}\n  PerKeyMerge = %s\n"
            "INVARIANTS LockOK WritersExclusive QuiescentAgree ReadersSeeAtomicState\nCHECK_DEADLOCK FALSE\n" % (procs, "TRUE" if perkey else "FALSE"))


def run_c13(pid, tier, seed):
    t0 = time.time()
    d = outdir(pid)
    mc_info = []
    states = transitions = 0
    # design level: the RWMutex-level model of the store refines the atomic one
    if os.path.exists(os.path.join(d, "spec", "FlytStoreLock.tla")):
        procs = "{1, 2}" if tier == "quick" else "{1, 2, 3}"
        lines, wall = run_tlc(d, "FlytStoreLock", lock_cfg(procs), workers=12, heap="8g", tag="mc_lock", timeout=1500)
        st = tlc_stats(lines)
        states += st["distinct"]; transitions += st["generated"]
        mc_info.append({"spec": "FlytStoreLock", "procs": procs, "distinct_states": st["distinct"], "states_generated": st["generated"], "wall_s": round(wall, 1)})
        log("mc store lock-level model procs=%s states=%d (%.1fs)" % (procs, st["distinct"], wall))
    binp = build_harness(d, race=True)
    hist = os.path.join(d, "conc_hist.ndjson")
    racelog = os.path.join(d, "race")
    count = 400 if tier == "quick" else 5000
    genv = {"GORACE": "log_path=%s halt_on_error=0 exitcode=0" % racelog}
    crashes = []

    def harness(args):
        # the Go runtime ends the process when it detects unsynchronised map access ("fatal error: concurrent map ...");
        # when the store's own methods are on the stack that is the race the property forbids, found the hard way
        msg = run_harness(binp, args, env=genv, tolerate_crash=True)
        if msg:
            if "flyt.(*SharedStore)" in msg and ("fatal error: concurrent map" in msg or "panic:" in msg):
                # (a store method that panics where a map would not - e.g. on a value that cannot be compared - is
                # just as little "equivalent to an ordinary map")
                crashes.append(msg)
            else:
                raise ToolFailure(msg)
    harness(["storeconc", "--out", hist, "--seed", str(seed), "--count", str(count)])
    # heavier stress whose only oracle is the race detector
    stressp = os.path.join(d, "stress.ndjson")
    nstress = 300 if tier == "quick" else 6000
    harness(["storeconc", "--out", stressp, "--seed", str(seed + 1), "--count", str(nstress), "--modes", "stress"])
    sfails, _, ssumm = judge_histories(d, "TPStore", stressp, pid, shards=2)
    # long runs under delete churn: every log of the single writer of a key set must be a sequential map history
    churnp = os.path.join(d, "churn.ndjson")
    nchurn = 12 if tier == "quick" else 200
    harness(["storeconc", "--out", churnp, "--seed", str(seed + 2), "--count", str(nchurn), "--modes", "churn"])
    cfails, _, csumm = judge_histories(d, "TPStore", churnp, pid, shards=4)
    log("churn runs: %d owner logs (%d operations) judged against the sequential map, %d failing" % (csumm.get("scenarios", 0), csumm.get("events", 0), len(cfails)))
    parts = shard_file(hist, 8)
    ok = set()
    import concurrent.futures
    with concurrent.futures.ThreadPoolExecutor(max_workers=len(parts)) as ex:
        for o, st, wall in ex.map(lambda ip: lin_check(d, ip[1], "lin%d" % ip[0]), enumerate(parts)):
            ok |= o
            states += st["distinct"]; transitions += st["generated"]
    scns = load_scenarios(hist)
    bad = sorted(set(scns) - ok)
    overlapping = 0
    events = 0
    for r in scns.values():
        pend = mx = 0
        for e in r["h"]:
            pend += 1 if e["ev"] == "call" else -1
            mx = max(mx, pend)
        overlapping += mx > 1
        events += len(r["h"])
    log("linearizability search: %d histories (%d with overlapping operations), %d not linearizable" % (len(scns), overlapping, len(bad)))
    violations, known_hits = [], {}
    if bad:
        # re-validate the rejected histories in a fresh TLC run
        rp = os.path.join(d, "conc_recheck.ndjson")
        with open(rp, "w") as f:
            for i in bad:
                f.write(json.dumps(scns[i]) + "\n")
        ok2, _, _ = lin_check(d, rp, "lin_recheck")
        for i in bad:
            if i in ok2:
                raise ToolFailure("history %d rejected once but accepted by a fresh TLC run" % i)
            violations.append({"property": pid, "family": "store", "clauses": ["linearizable"], "signature": "C13:linearizable", "scenario": scns[i]})
    if sfails:
        sscn = load_scenarios(stressp)
        for scn_id, prop, clauses in sfails[:5]:
            violations.append({"property": pid, "family": "store", "clauses": clauses, "signature": "C13:quiescent", "scenario": sscn[scn_id]})
    if cfails:
        cscn = load_scenarios(churnp)
        for scn_id, prop, clauses in cfails[:5]:
            sc = dict(cscn[scn_id])
            sc["h"] = sc["h"][:60]          # the bundle keeps the head of the log; the replay runs the churn again
            violations.append({"property": pid, "family": "store", "clauses": clauses, "signature": "C13:ownerSequential", "scenario": sc})
    for msg in crashes[:1]:
        violations.append({"property": pid, "family": "store", "clauses": ["raceFree"], "signature": "C13:race", "race_report": msg[:6000], "scenario": None})
    races = glob.glob(racelog + ".*")
    if races and not crashes:
        with open(races[0]) as f:
            txt = f.read()
        violations.append({"property": pid, "family": "store", "clauses": ["raceFree"], "signature": "C13:race", "race_report": txt[:6000], "scenario": None})
    samples = [{"scn": r["scn"], "goroutines": r["cfg"]["g"], "history": r["h"][:30]} for r in list(scns.values())[:2]]
    part = dict(states=states, transitions=transitions, scenarios=len(scns), events=events,
                hits={"overlapping_operations": overlapping, "stress_runs_under_race_detector": nstress,
                      "owner_logs_under_churn": csumm.get("scenarios", 0), "owner_operations_under_churn": csumm.get("events", 0)},
                violations=violations, known_hits=known_hits, drifts=0, mc_info=mc_info, samples=samples, exported=0,
                modes="2..6 goroutines x 4..10 operations over 2..8 keys, released from a barrier; -race", count=count)
    return fam_batch.finish(pid, tier, seed, d, t0, [("storeconc", part)])


def run(pid, tier, seed):
    return run_c14(pid, tier, seed) if pid == "C14" else run_c13(pid, tier, seed)


def replay(bundle):
    pid = bundle["property"]
    d = outdir("replay_" + pid)
    if not bundle.get("scenario"):
        log(bundle.get("race_report", ""))
        return 1
    rp = os.path.join(d, "replay.ndjson")
    with open(rp, "w") as f:
        f.write(json.dumps(bundle["scenario"]) + "\n")
    if bundle["scenario"].get("fam") in ("storeowner", "storeagg"):
        log("head of the recorded owner log: %s" % json.dumps(bundle["scenario"]["h"][:12]))
        binp = build_harness(d, race=True)
        sp = os.path.join(d, "churn.ndjson")
        run_harness(binp, ["storeconc", "--out", sp, "--seed", "1", "--count", "60", "--modes", "churn"],
                    env={"GORACE": "log_path=%s halt_on_error=0 exitcode=0" % os.path.join(d, "race")})
        sf, _, _ = judge_histories(d, "TPStore", sp, pid, shards=4)
        if sf:
            log("VIOLATION property=%s replay=%s (owner log that is no sequential map history reproduced in %d logs of 60 churn runs)" % (pid, bundle.get("_path", "?"), len(sf)))
            return 1
        log("60 churn runs on the current tree: every owner log is a sequential map history")
        return 0
    if bundle["scenario"].get("fam") == "storestress":
        log("recorded answers of the quiescent store: %s" % json.dumps(bundle["scenario"]["h"]))
        binp = build_harness(d, race=True)
        sp = os.path.join(d, "stress.ndjson")
        run_harness(binp, ["storeconc", "--out", sp, "--seed", "1", "--count", "2000", "--modes", "stress"],
                    env={"GORACE": "log_path=%s halt_on_error=0 exitcode=0" % os.path.join(d, "race")})
        sf, _, _ = judge_histories(d, "TPStore", sp, pid, shards=2)
        if sf:
            log("VIOLATION property=%s replay=%s (inconsistent quiescent store reproduced in %d of 2000 stress runs)" % (pid, bundle.get("_path", "?"), len(sf)))
            return 1
        log("2000 stress runs on the current tree: quiescent store consistent every time")
        return 0
    if pid == "C14":
        binp = build_harness(d)
        hist = os.path.join(d, "replay_hist.ndjson")
        run_harness(binp, ["store", "--out", hist, "-x", "replay=" + rp])
        fails, _, _ = judge_histories(d, "TPStore", hist, pid, shards=1)
        if fails:
            log("VIOLATION property=%s replay=%s %s" % (pid, bundle.get("_path", "?"), fails))
            return 1
        log("replay: %s holds on this scenario now" % pid)
        return 0
    ok, _, _ = lin_check(d, rp, "lin_replay")
    if not ok:
        log("recorded history is not linearizable (re-validated)")
    binp = build_harness(d, race=True)
    for attempt in range(20):
        hist = os.path.join(d, "replay_hist.ndjson")
        run_harness(binp, ["storeconc", "--out", hist, "--seed", str(attempt), "-x", "replay=" + rp],
                    env={"GORACE": "log_path=%s halt_on_error=0 exitcode=0" % os.path.join(d, "race")})
        ok2, _, _ = lin_check(d, hist, "lin_replay2")
        if not ok2:
            log("VIOLATION property=%s replay=%s (non-linearizable history reproduced on re-execution %d)" % (pid, bundle.get("_path", "?"), attempt + 1))
            return 1
    log("re-execution: 20 runs of the same programs were all linearizable")
    return 0 if ok else 1
