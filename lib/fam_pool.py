"""Pool family: C12 (and the pool part of C08)."""
import glob, json, os, shutil, time
from core import *
import fam_batch

POOL_STATE_INVS = "TypeOK AtMostOnce WgExact PoolBound WaitBarrier RoundBarrier ExactlyOnceAtEnd NoDeadlock"

# (Family, MaxW, MaxS, MaxPer, MaxRounds)
PLAN = {
    "C12": dict(mc_q=[("full", 2, 2, 2, 2), ("gated", 2, 2, 2, 1), ("early", 2, 2, 2, 1), ("selfwait", 2, 2, 2, 2)],
                mc_t=[("full", 3, 2, 3, 2), ("gated", 2, 2, 1, 2), ("gated", 3, 2, 2, 1), ("early", 3, 2, 3, 2), ("selfwait", 2, 3, 2, 2)],
                gen_q=("small,big,mixed,barrier,latesubmit,full,paced,earlyclose,selfwait", 25), gen_t=("small,big,mixed,barrier,latesubmit,full,paced,earlyclose,selfwait", 500), cap_q=1500, cap_t=20000),
    "C08": dict(mc_q=[("full", 2, 2, 2, 1), ("gated", 2, 1, 3, 1)], mc_t=[("full", 3, 2, 3, 1), ("gated", 3, 1, 3, 1)],
                gen_q=("barrier,small", 40), gen_t=("barrier,small,mixed", 400), cap_q=600, cap_t=5000),
}


def mc_cfg(fam, w, s, per, rounds):
    if fam == "selfwait":
        # every submitter calls Wait itself: overlapping Waits, each a barrier for the caller's own tasks
        return ("SPECIFICATION MCSpec\nCONSTANTS\n  Family = \"selfwait\"\n  MaxW = %d\n  MaxS = %d\n  MaxPer = %d\n  MaxRounds = %d\n  DoExport = FALSE\n"
                "VIEW NoHistView\nINVARIANTS %s SelfWaitBarrier\nCHECK_DEADLOCK FALSE\n" % (w, s, per, rounds, POOL_STATE_INVS))
    if fam == "early":
        # Close without Wait: what still holds (at most once, exact WaitGroup, the tasks left behind are the queued ones)
        return ("SPECIFICATION MCSpec\nCONSTANTS\n  Family = \"early\"\n  MaxW = %d\n  MaxS = %d\n  MaxPer = %d\n  MaxRounds = %d\n  DoExport = FALSE\n"
                "VIEW NoHistView\nINVARIANTS TypeOK AtMostOnce WgExact PoolBound RoundBarrier EarlyCloseAccounting NoDeadlock\nCHECK_DEADLOCK FALSE\n" % (w, s, per, rounds))
    if fam == "full":
        # every interleaving; the history is kept out of the fingerprint, state invariants only
        return ("SPECIFICATION MCSpec\nCONSTANTS\n  Family = \"full\"\n  MaxW = %d\n  MaxS = %d\n  MaxPer = %d\n  MaxRounds = %d\n  DoExport = FALSE\n"
                "VIEW NoHistView\nINVARIANTS %s\nCHECK_DEADLOCK FALSE\n" % (w, s, per, rounds, POOL_STATE_INVS))
    return ("SPECIFICATION MCSpec\nCONSTANTS\n  Family = \"gated\"\n  MaxW = %d\n  MaxS = %d\n  MaxPer = %d\n  MaxRounds = %d\n  DoExport = TRUE\n"
            "INVARIANTS %s InvC12 InvC08 Export\nCHECK_DEADLOCK FALSE\n" % (w, s, per, rounds, POOL_STATE_INVS))


def live_cfg(w, s, per, rounds):
    return ("SPECIFICATION MCLive\nCONSTANTS\n  Family = \"full\"\n  MaxW = %d\n  MaxS = %d\n  MaxPer = %d\n  MaxRounds = %d\n  DoExport = FALSE\n"
            "VIEW NoHistView\nPROPERTIES CloseTerminates Completes\nCHECK_DEADLOCK FALSE\n" % (w, s, per, rounds))


def collect(pid, tier, seed, d):
    plan = PLAN[pid]
    mcs = plan["mc_q"] if tier == "quick" else plan["mc_t"]
    modes, count = plan["gen_q"] if tier == "quick" else plan["gen_t"]
    cap = plan["cap_q"] if tier == "quick" else plan["cap_t"]
    states = transitions = 0
    scn_lines, mc_info = [], []
    for fam, w, s, per, rounds in mcs:
        tag = "mcp_%s_%d_%d_%d_%d" % (fam, w, s, per, rounds)
        lines, wall = run_tlc(d, "MCPool", mc_cfg(fam, w, s, per, rounds), workers=10, heap="6g", tag=tag, timeout=900)
        st = tlc_stats(lines)
        ex = export_lines(lines)
        states += st["distinct"]; transitions += st["generated"]; scn_lines += ex
        mc_info.append({"spec": "FlytPool", "family": fam, "MaxW": w, "MaxS": s, "MaxPer": per, "MaxRounds": rounds,
                        "distinct_states": st["distinct"], "states_generated": st["generated"], "depth": st["depth"],
                        "behaviours_exported": len(ex), "wall_s": round(wall, 1)})
        log("mc pool/%-6s W<=%d S<=%d per<=%d rounds<=%d states=%d behaviours=%d (%.1fs)" % (fam, w, s, per, rounds, st["distinct"], len(ex), wall))
    if pid == "C12":
        # liveness under weak fairness: Close leads to every worker exiting; every run completes
        w, s, per, rounds = (2, 2, 2, 1) if tier == "quick" else (2, 2, 2, 2)
        lines, wall = run_tlc(d, "MCPool", live_cfg(w, s, per, rounds), workers=4, heap="4g", tag="mcp_live", timeout=900)
        st = tlc_stats(lines)
        mc_info.append({"spec": "FlytPool", "family": "full+fairness", "properties": "CloseTerminates, Completes", "MaxW": w, "MaxS": s,
                        "MaxPer": per, "MaxRounds": rounds, "distinct_states": st["distinct"], "wall_s": round(wall, 1)})
        log("mc pool liveness (Close ~> all workers exited, run completes): states=%d (%.1fs)" % (st["distinct"], wall))
    scnp = os.path.join(d, "pool_scenarios.ndjson")
    with open(scnp, "w") as f:
        for s_ in scn_lines:
            f.write(s_ + "\n")
    binp = build_harness(d, race=True)
    hist = os.path.join(d, "pool_hist.ndjson")
    racelog = os.path.join(d, "race")
    crash_violation = None
    crash = run_harness(binp, ["pool", "--scn", scnp, "--out", hist, "--seed", str(seed), "--count", str(count), "--modes", modes,
                               "-x", "maxscn=%d" % cap], env={"GORACE": "log_path=%s halt_on_error=0 exitcode=0" % racelog}, tolerate_crash=True)
    if crash:
        # (e.g. "sync: negative WaitGroup counter" raised in one of the pool's own goroutines: nobody can recover that)
        with open(hist) as f:
            good = [l for l in f.read().split("\n") if l.endswith("}")]
        with open(hist, "w") as f:
            f.write("\n".join(good) + ("\n" if good else ""))
        log("the harness process crashed inside the library under test; judging the %d histories recorded before the crash" % len(good))
    fails, drifts, summ = judge_histories(d, "TPPool", hist, pid, shards=8, heap="3g")
    if crash and not [f_ for f_ in fails if f_[1] == pid]:
        if "flyt.(*WorkerPool)" in crash or "flyt.NewWorkerPool" in crash:
            # the pool itself brought the process down and nothing recorded before shows a violation: that is the finding
            crash_violation = {"property": pid, "family": "pool", "clauses": ["clean"], "signature": "%s:crash" % pid,
                               "race_report": crash[-6000:], "scenario": None}
        else:
            raise ToolFailure(crash)
    log("judged %d pool histories (%d events): %d failing, %d drifting" % (summ.get("scenarios", 0), summ.get("events", 0), len(fails), len(drifts)))
    # code -> spec: small recorded histories must be explained by FlytPool (send and pickup inferred as silent steps)
    def small(r):
        c = r["cfg"]
        return (r.get("fam") != "poolearly" and c["sched"] != "latesubmit" and c["S"] * c["per"] * c["rounds"] <= 8 and max(c["W"], 1) <= 3
                and not any(e["ev"] in ("hang", "stuck", "race", "panic") for e in r["h"]))
    tv_n, tv_ok, tv_states, tv_trans = trace_validate(d, "TracePool", hist, keep=small, shards=4, limit=600 if tier == "quick" else 6000)
    states += tv_states; transitions += tv_trans
    unexplained = tv_n - len(tv_ok)
    mc_info.append({"spec": "TracePool (trace validation of recorded histories)", "histories": tv_n, "explained": len(tv_ok),
                    "distinct_states": tv_states, "states_generated": tv_trans})
    log("trace validation against FlytPool: %d of %d histories explained" % (len(tv_ok), tv_n))
    # Close without Wait is outside what C12 promises: those histories get no verdict, but the specification (CloseEarly)
    # must explain them too
    shutil.copy(hist, hist + ".early")
    ev_n, ev_ok, ev_states, ev_trans = trace_validate(d, "TracePool", hist + ".early", keep=lambda r: r.get("fam") == "poolearly", shards=2, limit=2000)
    states += ev_states; transitions += ev_trans
    unexplained += ev_n - len(ev_ok)
    mc_info.append({"spec": "TracePool (histories of a Close without Wait; conformance only, no verdict)", "histories": ev_n, "explained": len(ev_ok)})
    log("early-close histories explained by FlytPool (no verdict): %d of %d" % (len(ev_ok), ev_n))
    violations, known_hits, stalls = [], {}, 0
    if crash_violation:
        violations.append(crash_violation)
    races = glob.glob(racelog + ".*")
    if races and pid == "C12":
        with open(races[0]) as f:
            txt = f.read()
        violations.append({"property": pid, "family": "pool", "clauses": ["clean"], "signature": "C12:race",
                           "race_report": txt[:6000], "scenario": None})
    if fails:
        scns = load_scenarios(hist)
        known = known_signatures(pid)
        bad_ids = sorted({f[0] for f in fails if f[1] == pid})
        rp = os.path.join(d, "pool_recheck.ndjson")
        with open(rp, "w") as f:
            for i in bad_ids:
                f.write(json.dumps(scns[i]) + "\n")
        fails2, _, _ = judge_histories(d, "TPPool", rp, pid, shards=2, heap="3g")
        again = {f[0] for f in fails2 if f[1] == pid}
        # re-execute the failing scenarios (up to four times: a deadlock that depends on a race does not come back every time)
        reproduced = set()
        for k in range(4):
            hist2 = os.path.join(d, "pool_reexec%d.ndjson" % k)
            run_harness(binp, ["pool", "--out", hist2, "--seed", str(seed + 1 + k), "-x", "replay=" + rp],
                        env={"GORACE": "log_path=%s halt_on_error=0 exitcode=0" % racelog}, tolerate_crash=True)
            if not os.path.exists(hist2):
                open(hist2, "w").close()
            fails3, _, _ = judge_histories(d, "TPPool", hist2, pid, shards=2, heap="3g")
            reproduced |= {f[0] for f in fails3 if f[1] == pid}
            if reproduced >= set(bad_ids):
                break
        for scn_id, prop, clauses in fails:
            if prop != pid:
                continue
            if scn_id not in again:
                raise ToolFailure("history %d failed once but not when re-validated by a fresh TLC run" % scn_id)
            # a history that rests on one of the harness's own watchdogs (a barrier or a Wait that did not come in time, goroutines
            # still alive two seconds after Close) may be a scheduling stall of a loaded machine: it counts only if the same
            # scenario fails again when re-executed - a real deadlock or leak does, a stall does not
            watchdog = any(e["ev"] in ("stuck", "hang") or (e["ev"] == "leak" and e.get("n", 0) > 0) for e in scns[scn_id]["h"])
            if watchdog and scn_id not in reproduced:
                stalls += 1
                continue
            c = scns[scn_id]["cfg"]
            sig = "%s:%s:W=%s" % (pid, "+".join(sorted(clauses)), "<=0" if c["W"] <= 0 else ">0")
            if sig in known:
                known_hits[sig] = known[sig]
            else:
                violations.append({"property": pid, "family": "pool", "clauses": clauses, "signature": sig,
                                   "reproduced_on_reexecution": scn_id in reproduced, "scenario": scns[scn_id]})
    samples = []
    try:
        with open(hist) as f:
            for i, line in enumerate(f):
                if i in (0, 1) or (i % 307 == 0 and len(samples) < 4):
                    r = json.loads(line)
                    samples.append({"scn": r["scn"], "src": r["src"], "cfg": r["cfg"], "history": r["h"][:30]})
    except Exception:
        pass
    return dict(states=states, transitions=transitions, scenarios=summ.get("scenarios", 0), events=summ.get("events", 0),
                hits={k: v for k, v in summ.items() if k not in ("scenarios", "events")}, violations=violations, known_hits=known_hits,
                drifts=len(drifts) + unexplained, mc_info=mc_info, samples=samples, exported=len(scn_lines), modes=modes, count=count,
                scheduling_stalls_discarded=stalls)


def run(pid, tier, seed):
    t0 = time.time()
    d = outdir(pid)
    parts = [("pool", collect(pid, tier, seed, d))]
    return fam_batch.finish(pid, tier, seed, d, t0, parts)


def replay(bundle):
    pid = bundle["property"]
    if not bundle.get("scenario"):
        log("race report recorded in the bundle; re-run ./check %s to look for it again" % pid)
        log(bundle.get("race_report", ""))
        return 1
    d = outdir("replay_" + pid)
    binp = build_harness(d, race=True)
    rp = os.path.join(d, "replay.ndjson")
    with open(rp, "w") as f:
        f.write(json.dumps(bundle["scenario"]) + "\n")
    fails, _, _ = judge_histories(d, "TPPool", rp, pid, shards=1)
    if any(f[1] == pid for f in fails):
        log("recorded history violates %s: %s" % (pid, fails))
    hist = os.path.join(d, "replay_hist.ndjson")
    for attempt in range(5):
        run_harness(binp, ["pool", "--out", hist, "--seed", str(attempt + 1), "-x", "replay=" + rp],
                    env={"GORACE": "log_path=%s halt_on_error=0 exitcode=0" % os.path.join(d, "race")})
        fails2, _, _ = judge_histories(d, "TPPool", hist, pid, shards=1)
        if any(f[1] == pid for f in fails2):
            log("VIOLATION property=%s replay=%s (reproduced on re-execution %d: %s)" % (pid, bundle.get("_path", "?"), attempt + 1, fails2))
            return 1
    log("re-execution on the current tree: property %s holds on this scenario (5 runs)" % pid)
    return 0
