"""Engine family checks: C01-C05, C10, C17, C18 (flyt.Run, flows, nesting, function nodes)."""
import json, os, shutil, time
from core import *

ENGINE_INVS = "TypeOK AttemptBound NoEmptyAction StackShape InvC01 InvC02 InvC03 InvC04 InvC05 InvC10 InvC11E InvC17 InvC18"

# property -> (model-checking families quick, thorough, generator modes quick, thorough)
# an MC family entry is (Family, MaxN, MaxVisits)
PLAN = {
    "C01": dict(mc_q=[("single", 3, 4), ("singlenil", 2, 4), ("singlecancel", 2, 4), ("flowerr", 2, 3)],
                mc_t=[("single", 5, 4), ("singlenil", 3, 4), ("singleeres", 3, 4), ("singlecancel", 3, 4), ("flowerr", 2, 4), ("flow2", 1, 5), ("flowcancel", 2, 4)],
                gen_q=("single,plain,err,cancel,panic,hugeloop", 110), gen_t=("single,plain,err,nest,cancel,cancelenum,panic,hugeloop", 2200)),
    "C02": dict(mc_q=[("single", 3, 4), ("singlecancel", 2, 4), ("flowretry", 1, 5), ("zerobudget", 1, 4)],
                mc_t=[("single", 6, 4), ("singlecancel", 3, 4), ("flowerr", 2, 4), ("flowretry", 1, 6), ("zerobudget", 1, 5)],
                gen_q=("single,plain,err,flowretry,zerobudget", 130), gen_t=("single,plain,err,flowretry,zerobudget", 3500)),
    "C03": dict(mc_q=[("flow2", 1, 4), ("rerun", 1, 4), ("flow2empty", 1, 3), ("dynwire", 1, 4), ("emptyconn", 1, 4), ("selfnest", 1, 4)],
                mc_t=[("flow2", 1, 6), ("rerun", 1, 5), ("flow2empty", 1, 5), ("nest", 1, 3), ("dynwire", 1, 5), ("emptyconn", 1, 6), ("selfnest", 1, 5)],
                gen_q=("plain,nest,dynwire,zs,sh,recur,wide,longloop,hugeloop,longchain", 130), gen_t=("plain,nest,err,dynwire,zs,sh,recur,wide,longloop,hugeloop,longchain", 2600)),
    "C04": dict(mc_q=[("flowerr", 2, 3), ("nesterr", 2, 3), ("nilstart", 1, 3), ("flowbatch", 2, 4)],
                mc_t=[("flowerr", 2, 5), ("nesterr", 2, 4), ("nilstart", 1, 4), ("single", 4, 4), ("flowbatch", 2, 5)],
                gen_q=("faultenum,err,hugeloop", 60), gen_t=("faultenum,err,nilstart,hugeloop", 800)),
    "C05": dict(mc_q=[("singlecancel", 2, 4), ("singlewait", 2, 4), ("flowcancel", 2, 3), ("flowbatch", 2, 4)],
                mc_t=[("singlecancel", 3, 4), ("singlewait", 3, 4), ("flowcancel", 2, 4), ("flowbatch", 2, 5)],
                gen_q=("cancelenum,cancel,zerocancel", 60), gen_t=("cancelenum,cancel,zerocancel", 800)),
    "C10": dict(mc_q=[("nestsmall", 1, 4), ("nesterr", 2, 3), ("flowretry", 1, 5), ("selfnest", 1, 4)],
                mc_t=[("nest", 1, 5), ("nest3", 1, 5), ("nesterr", 2, 4), ("flowretry", 1, 6), ("selfnest", 1, 5)],
                gen_q=("nest,flowretry,recur,longloop,hugeloop", 180), gen_t=("nest,err,flowretry,recur,longloop,hugeloop", 3000)),
    # C11 through a flow: flows whose steps are batch nodes, cancelled from inside an item
    "C11": dict(mc_q=[("batchloop", 2, 3), ("flowbatch", 2, 3)],
                mc_t=[("batchloop", 2, 5), ("flowbatch", 2, 5)],
                gen_q=("batchflow", 150), gen_t=("batchflow", 3000)),
    "C17": dict(mc_q=[("single", 2, 4), ("singleeres", 2, 4), ("singlenil", 2, 4), ("singlererun", 1, 4)],
                mc_t=[("single", 3, 4), ("singleeres", 3, 4), ("singlenil", 3, 4), ("singlererun", 1, 4), ("flow2empty", 1, 4)],
                gen_q=("single,plain", 200), gen_t=("single,plain,err", 4000)),
    "C18": dict(mc_q=[("single", 2, 4), ("flow2empty", 1, 4), ("flowbatch", 2, 4), ("nestsmall", 1, 3), ("singlecancel", 2, 4)],
                mc_t=[("single", 3, 4), ("flow2empty", 1, 6), ("nest", 1, 4), ("singlecancel", 3, 4), ("flowcancel", 2, 4), ("flowbatch", 2, 5)],
                gen_q=("single,plain,nest,sh,cancel,panic,zerobudget", 100), gen_t=("single,plain,nest,sh,cancel,cancelenum,panic,zerobudget", 2000)),
}


# families outside every property (conformance of code and specification only): their own invariants
FAMILY_INVS = {"zerobudget": "TypeOK NoEmptyAction StackShape ZeroBudgetSkipsExec"}


def mc_cfg(family, maxn, maxvisits):
    return ("SPECIFICATION MCSpec\nCONSTANTS\n  Family = \"%s\"\n  MaxN = %d\n  MaxVisits = %d\n  DoExport = TRUE\n"
            "CONSTRAINT VisitBound\nINVARIANTS %s Export\nCHECK_DEADLOCK FALSE\n" % (family, maxn, maxvisits, FAMILY_INVS.get(family, ENGINE_INVS)))


def signature(pid, clauses, scn):
    """Class of a failing scenario, used to match entries of known_findings.json: property, failing
    clauses, and the shape of the input that triggers it (kind/style of the node involved)."""
    feats = set()
    nodes = scn["cfg"]["nodes"]
    for e in scn["h"]:
        if e.get("ev") == "exec" and e.get("out") == "eres":
            n = nodes[e["node"] - 1]
            feats.add("eres/post-" + n["sty"][2])
        if e.get("ev") == "post" and e.get("ew") not in (None, "raw"):
            feats.add("ew=" + e["ew"])
    return "%s:%s:%s" % (pid, "+".join(sorted(clauses)), ",".join(sorted(feats)))


def collect(pid, tier, seed, d, binp):
    plan = PLAN[pid]
    mcs = plan["mc_q"] if tier == "quick" else plan["mc_t"]
    modes, count = plan["gen_q"] if tier == "quick" else plan["gen_t"]

    # 1. model checking: the predicates are invariants of the operational spec; export behaviours
    states = transitions = 0
    scn_lines = []
    mc_info = []
    for fam, maxn, maxv in mcs:
        lines, wall = run_tlc(d, "MCEngine", mc_cfg(fam, maxn, maxv), workers=8, heap="4g", tag="mc_" + fam)
        st = tlc_stats(lines)
        ex = export_lines(lines)
        states += st["distinct"]
        transitions += st["generated"]
        scn_lines += ex
        mc_info.append({"family": fam, "MaxN": maxn, "MaxVisits": maxv, "distinct_states": st["distinct"],
                        "states_generated": st["generated"], "depth": st["depth"], "behaviours_exported": len(ex), "wall_s": round(wall, 1)})
        log("mc %-13s states=%d behaviours=%d (%.1fs)" % (fam, st["distinct"], len(ex), wall))
    scnp = os.path.join(d, "scenarios.ndjson")
    with open(scnp, "w") as f:
        for s in scn_lines:
            f.write(s + "\n")

    # 2. replay the behaviours on the real library (built from /repo's working tree), run random scenarios
    hist = os.path.join(d, "hist.ndjson")
    cap = 5000 if tier == "quick" else 40000
    crash = run_harness(binp, ["engine", "--scn", scnp, "--out", hist, "--seed", str(seed), "--count", str(count), "--modes", modes,
                               "-x", "maxscn=%d" % cap], tolerate_crash=True)
    if crash:
        # (a callback that panics in a goroutine the library started cannot be recovered by anybody: the process dies)
        with open(hist) as f:
            good = [l for l in f.read().split("\n") if l.endswith("}")]
        with open(hist, "w") as f:
            f.write("\n".join(good) + ("\n" if good else ""))
        log("the harness process crashed inside the library under test; judging the %d histories recorded before the crash" % len(good))

    # 3. verdict: TLC evaluates the property's predicate on every recorded history
    fails, drifts, summ = judge_histories(d, "TPEngine", hist, pid, shards=8)
    if crash and not [f_ for f_ in fails if f_[1] == pid]:
        raise ToolFailure(crash)
    log("judged %d histories (%d events): %d failing, %d drifting from the exported behaviour" %
        (summ.get("scenarios", 0), summ.get("events", 0), len(fails), len(drifts)))

    # 3b. code -> spec: every recorded history must be explained by the operational specification
    tv_n, tv_ok, tv_states, tv_trans = trace_validate(d, "TraceEngine", hist, keep=lambda r: r.get("fam") != "enginelong", shards=8,
                                                      limit=4000 if tier == "quick" else 20000)
    states += tv_states
    transitions += tv_trans
    unexplained = tv_n - len(tv_ok)
    log("trace validation against FlytEngine: %d of %d histories explained" % (len(tv_ok), tv_n))
    if "zerobudget" in modes or "zerocancel" in modes:
        # budgets below one are outside every property: no verdict, but the specification must explain what the code does
        shutil.copy(hist, hist + ".zero")
        # (a flow with such a budget does nothing and answers the default action: on a cycle of its parent it spins for ever
        # without a callback; the harness stops those runs by cancelling their context and marks them "spin")
        spins = [0]

        def zero_kept(r):
            if r.get("fam") != "enginezero":
                return False
            if any(e["ev"] == "spin" for e in r["h"]):
                spins[0] += 1
                return False
            return True
        zn, zok, zst, ztr = trace_validate(d, "TraceEngine", hist + ".zero", keep=zero_kept, shards=2, limit=3000)
        if spins[0]:
            log("zero-budget scenarios that spin without a callback (stopped by the harness): %d" % spins[0])
        states += zst; transitions += ztr
        unexplained += zn - len(zok)
        mc_info.append({"spec": "TraceEngine (retry budgets below one; conformance only, no verdict)", "histories": zn, "explained": len(zok)})
        log("zero-budget histories explained by FlytEngine (no verdict): %d of %d" % (len(zok), zn))

    # 4. confirm every failure by re-executing its scenario on the real code, then classify
    violations, known_hits, unconfirmed = [], {}, 0
    if fails:
        scns = load_scenarios(hist)
        bad_ids = sorted({f[0] for f in fails if f[1] == pid})[:200]
        fails = [f for f in fails if f[0] in set(bad_ids)]
        rp = os.path.join(d, "recheck.ndjson")
        with open(rp, "w") as f:
            for i in bad_ids:
                f.write(json.dumps(scns[i]) + "\n")
        hist2 = os.path.join(d, "recheck_hist.ndjson")
        run_harness(binp, ["engine", "--out", hist2, "-x", "replay=" + rp])
        fails2, _, _ = judge_histories(d, "TPEngine", hist2, pid, shards=4)
        again = {(f[0], f[1]) for f in fails2}
        known = known_signatures(pid)
        for scn_id, prop, clauses in fails:
            if prop != pid:
                continue
            if (scn_id, prop) not in again:
                unconfirmed += 1
                continue
            sig = signature(pid, clauses, scns[scn_id])
            if sig in known:
                known_hits[sig] = known[sig]
            else:
                violations.append({"property": pid, "family": "engine", "clauses": clauses, "signature": sig, "scenario": scns[scn_id]})
    if unconfirmed and not violations and not known_hits:
        raise ToolFailure("%d failing histories did not fail again on re-execution (non-deterministic harness?)" % unconfirmed)
    if unconfirmed:
        log("%d failing histories did not fail again on re-execution and were dropped (%d did)" % (unconfirmed, len(violations)))

    samples = []
    try:
        with open(hist) as f:
            for i, line in enumerate(f):
                if i in (0, 1) or (i % 997 == 0 and len(samples) < 4):
                    r = json.loads(line)
                    samples.append({"scn": r["scn"], "src": r["src"], "nodes": r["cfg"]["nodes"], "history": r["h"][:40]})
    except Exception:
        pass
    for m in mc_info:
        m["spec"] = "FlytEngine"
    mc_info.append({"spec": "TraceEngine (trace validation of recorded histories)", "histories": tv_n, "explained": len(tv_ok),
                    "distinct_states": tv_states, "states_generated": tv_trans})
    return dict(states=states, transitions=transitions, scenarios=summ.get("scenarios", 0), events=summ.get("events", 0),
                hits={k: v for k, v in summ.items() if k not in ("scenarios", "events")}, violations=violations, known_hits=known_hits,
                drifts=len(drifts) + unexplained, mc_info=mc_info, samples=samples, exported=len(scn_lines), modes=modes, count=count)


WITH_BATCH = {"C02", "C03", "C04", "C17", "C18"}


def run(pid, tier, seed):
    import fam_batch
    t0 = time.time()
    d = outdir(pid)
    binp = build_harness(d)
    parts = [("engine", collect(pid, tier, seed, d, binp))]
    if pid in ("C01", "C17", "C18"):
        import fam_tables
        parts.append(("defaults", fam_tables.collect_defaults(pid, tier, seed, d, binp)))   # nodes that provide only some phases
    if pid in WITH_BATCH:
        parts.append(("batch", fam_batch.collect(pid, tier, seed, d, binp)))
    if pid in ("C02", "C05"):
        import fam_timing
        parts.append(("timing", fam_timing.collect(pid, tier, seed, d, binp)))   # cancellation from outside during a retry wait
    return fam_batch.finish(pid, tier, seed, d, t0, parts)


def replay(bundle):
    """Re-execute the scenario of a violation bundle on the current tree and judge it again."""
    pid = bundle["property"]
    d = outdir("replay_" + pid)
    binp = build_harness(d)
    rp = os.path.join(d, "replay.ndjson")
    with open(rp, "w") as f:
        f.write(json.dumps(bundle["scenario"]) + "\n")
    hist = os.path.join(d, "replay_hist.ndjson")
    run_harness(binp, ["engine", "--out", hist, "-x", "replay=" + rp])
    fails, drifts, _ = judge_histories(d, "TPEngine", hist, pid, shards=1)
    with open(hist) as f:
        log("recorded history: " + f.read().strip()[:4000])
    if any(f[1] == pid for f in fails):
        log("VIOLATION property=%s replay=%s" % (pid, bundle.get("_path", "?")))
        for f in fails:
            log("  failing clauses: %s" % ",".join(f[2]))
        return 1
    log("replay: property %s holds on this scenario now" % pid)
    return 0
