package main

// Pool family: flyt.WorkerPool driven by several submitter goroutines in rounds
// (submit ... join submitters, Wait, read the tasks' plain writes ... Close),
// with gated or randomly timed task bodies.

import (
	"fmt"
	"math/rand"
	"reflect"
	"runtime"
	"strings"
	"sync"
	"sync/atomic"
	"time"

	"github.com/mark3labs/flyt"
)

type PoolCfg struct {
	W, S, Per, Rounds int
	Gated             bool
	Sched             string // script | random | free | barrier | full | paced
	Open              bool   // a slice of a longer run: the pool is not closed at its end
	QCap              int    // capacity of the pool's task queue as read off the pool object (-1: unknown)
	Early             bool   // Close is called without Wait after the last round's submissions
	SelfWait          bool   // every submitter calls Wait itself after its submissions (overlapping Waits)
}

var (
	qcapMu    sync.Mutex
	qcapCache = map[int]int{}
)

// poolQCap: queue capacity of a pool created with the given size (probed once per size on a pool of its own)
func poolQCap(w int) int {
	qcapMu.Lock()
	defer qcapMu.Unlock()
	if c, ok := qcapCache[w]; ok {
		return c
	}
	c := -1
	func() {
		defer func() { recover() }() // a pool that cannot even be created is the scenario's finding, not the probe's
		p := flyt.NewWorkerPool(w)
		c = queueCap(p)
		p.Close()
	}()
	time.Sleep(2 * time.Millisecond) // let the probe's workers exit before anybody counts goroutines
	qcapCache[w] = c
	return c
}

// queueCap reads the capacity of the pool's task channel (the "queue" of the documentation) off the object.
func queueCap(p *flyt.WorkerPool) (c int) {
	defer func() {
		if recover() != nil {
			c = -1
		}
	}()
	f := reflect.ValueOf(p).Elem().FieldByName("tasks")
	if !f.IsValid() || f.Kind() != reflect.Chan {
		return -1
	}
	return f.Cap()
}

func parsePoolCfg(m map[string]any) PoolCfg {
	c := PoolCfg{W: asInt(m["W"]), S: asInt(m["S"]), Per: asInt(m["per"]), Rounds: asInt(m["rounds"]), Gated: asBool(m["gated"]), Sched: asStr(m["sched"]), Open: asBool(m["open"]), QCap: -1, Early: asBool(m["early"]), SelfWait: asBool(m["selfwait"])}
	if c.Sched == "" {
		c.Sched = "script"
	}
	return c
}
func (c PoolCfg) toJSON() map[string]any {
	return map[string]any{"W": c.W, "S": c.S, "per": c.Per, "rounds": c.Rounds, "gated": c.Gated, "sched": c.Sched, "open": c.Open, "qcap": poolQCap(c.W), "early": c.Early, "selfwait": c.SelfWait}
}

type poolStep struct {
	Kind   string // "submit" | "taskend"
	Sub    int
	Task   int
	Before int // position of this step in the expected history: every task event before it must have been observed
}

type evKey struct {
	ev   string
	task int
}

type poolRun struct {
	cfg         PoolCfg
	mu          sync.Mutex
	events      []Event
	seen        map[evKey]bool // task events observed so far
	expKeys     []evKey        // task events of the expected history, in order (zero value: other event)
	verified    int            // expKeys[0:verified] have all been observed
	gids        map[int64]int
	parked      map[int]chan struct{} // task -> gate
	subGate     []chan struct{}       // per submitter: permission for the next Submit
	notify      chan struct{}
	done        chan struct{}
	rng         *rand.Rand
	stuck       bool
	barrier     chan struct{}
	barOnce     sync.Once
	nStarted    int
	selfWaiting int32 // submitters that have called Wait in the current round
}

// curRound: the round in progress (1-based), from the waitret events of the main goroutine logged so far
func (p *poolRun) curRound() int {
	p.mu.Lock()
	defer p.mu.Unlock()
	r := 1
	for _, e := range p.events {
		if e["ev"] == "waitret" && e["w"] == nil {
			r++
		}
	}
	return r
}

func (p *poolRun) noteLocked(e Event) {
	if t, ok := e["task"].(int); ok {
		p.seen[evKey{e["ev"].(string), t}] = true
	}
}

// observedUpTo reports whether every task event among the first n expected events has been observed
func (p *poolRun) observedUpToLocked(n int) bool {
	for p.verified < n && p.verified < len(p.expKeys) {
		k := p.expKeys[p.verified]
		if k.ev != "" && !p.seen[k] {
			return false
		}
		p.verified++
	}
	return true
}

func (p *poolRun) log(e Event) {
	p.mu.Lock()
	p.events = append(p.events, e)
	p.noteLocked(e)
	p.mu.Unlock()
	select {
	case p.notify <- struct{}{}:
	default:
	}
}

func (p *poolRun) gid() int {
	id := goid()
	p.mu.Lock()
	defer p.mu.Unlock()
	if g, ok := p.gids[id]; ok {
		return g
	}
	g := len(p.gids) + 1
	p.gids[id] = g
	return g
}

func taskID(r, s, j int) int { return 1000000*r + 10000*s + j }

func poolWorkersAlive() int {
	buf := make([]byte, 1<<20)
	n := runtime.Stack(buf, true)
	return strings.Count(string(buf[:n]), "flyt.(*WorkerPool).worker")
}

func runPoolScenario(cfg PoolCfg, steps []poolStep, expKeys []evKey, seed int64) []Event {
	p := &poolRun{cfg: cfg, seen: map[evKey]bool{}, expKeys: expKeys, gids: map[int64]int{}, parked: map[int]chan struct{}{}, notify: make(chan struct{}, 1),
		done: make(chan struct{}), rng: rand.New(rand.NewSource(seed)), barrier: make(chan struct{})}
	nw := cfg.W
	if nw <= 0 {
		nw = 1
	}
	total := cfg.Rounds * cfg.S * cfg.Per
	cells := make(map[int]*int, total) // plain (non-atomic) memory written by tasks, read by the waiter
	for r := 1; r <= cfg.Rounds; r++ {
		for s := 1; s <= cfg.S; s++ {
			for j := 1; j <= cfg.Per; j++ {
				cells[taskID(r, s, j)] = new(int)
			}
		}
	}
	base := poolWorkersAlive()
	var pool *flyt.WorkerPool
	func() {
		defer func() {
			if r := recover(); r != nil {
				p.events = append(p.events, Event{"ev": "panic", "msg": fmt.Sprint(r)})
			}
		}()
		pool = flyt.NewWorkerPool(cfg.W)
	}()
	if pool == nil {
		return p.events // the pool could not be created
	}
	p.subGate = make([]chan struct{}, cfg.S+1)
	for s := 1; s <= cfg.S; s++ {
		p.subGate[s] = make(chan struct{}, total+1)
	}
	useGates := cfg.Sched == "script" || cfg.Sched == "random" || cfg.Sched == "full"
	subGates := useGates && cfg.Sched != "full" // "full": the submitters run freely until Submit itself holds them back

	body := func(t int) func() {
		return func() {
			g := p.gid()
			var ch chan struct{}
			p.mu.Lock()
			p.events = append(p.events, Event{"ev": "taskstart", "task": t, "gid": g})
			p.seen[evKey{"taskstart", t}] = true
			p.nStarted++
			started := p.nStarted
			if useGates {
				ch = make(chan struct{})
				p.parked[t] = ch
			}
			p.mu.Unlock()
			select {
			case p.notify <- struct{}{}:
			default:
			}
			switch {
			case ch != nil:
				select {
				case <-ch:
				case <-time.After(8 * time.Second):
					p.mu.Lock()
					p.stuck = true
					p.mu.Unlock()
				}
			case cfg.Sched == "barrier":
				// the first nw tasks wait for each other: all workers must be usable at once
				if started <= nw {
					if started == nw {
						p.barOnce.Do(func() { close(p.barrier) })
					}
					select {
					case <-p.barrier:
					case <-time.After(3 * time.Second):
						p.mu.Lock()
						p.stuck = true
						p.mu.Unlock()
						p.barOnce.Do(func() { close(p.barrier) })
					}
				}
			default:
				p.mu.Lock()
				d := time.Duration(p.rng.Intn(150)) * time.Microsecond
				p.mu.Unlock()
				if d > 20*time.Microsecond {
					time.Sleep(d)
				}
			}
			*cells[t] = t // plain write
			p.log(Event{"ev": "taskend", "task": t, "gid": g})
		}
	}

	// controller
	go func() {
		si := 0
		for {
			select {
			case <-p.done:
				return
			default:
			}
			if cfg.Sched == "script" && si < len(steps) {
				st := steps[si]
				// wait until everything the behaviour shows before this step has been observed
				deadline := time.After(300 * time.Millisecond)
			wait:
				for {
					p.mu.Lock()
					ready := p.observedUpToLocked(st.Before)
					var ch chan struct{}
					if st.Kind == "taskend" {
						ch = p.parked[st.Task]
						ready = ready && ch != nil
					}
					p.mu.Unlock()
					if ready {
						si++
						if st.Kind == "submit" {
							p.subGate[st.Sub] <- struct{}{}
						} else {
							p.mu.Lock()
							delete(p.parked, st.Task)
							p.mu.Unlock()
							close(ch)
						}
						break wait
					}
					select {
					case <-p.notify:
					case <-time.After(200 * time.Microsecond):
					case <-p.done:
						return
					case <-deadline:
						si = len(steps) // off script: free-run the rest
						break wait
					}
				}
				continue
			}
			if cfg.Sched == "full" {
				// every task parks; nothing is released before the history has been quiet for a while, i.e. before
				// the submitters are through or held back by a full queue
				last := -1
				for {
					p.mu.Lock()
					n := len(p.events)
					p.mu.Unlock()
					if n == last {
						break
					}
					last = n
					select {
					case <-time.After(12 * time.Millisecond):
					case <-p.done:
						return
					}
				}
			}
			// off script / random: open all submit gates, release any parked task
			for s := 1; s <= cfg.S; s++ {
				select {
				case p.subGate[s] <- struct{}{}:
				default:
				}
			}
			if cfg.SelfWait && int(atomic.LoadInt32(&p.selfWaiting)) < cfg.S*p.curRound() {
				// no task is released before every submitter of the round is inside Wait
				select {
				case <-time.After(300 * time.Microsecond):
				case <-p.done:
					return
				}
				continue
			}
			p.mu.Lock()
			var pick int = -1
			var keys []int
			for t := range p.parked {
				keys = append(keys, t)
			}
			if len(keys) > 0 {
				pick = keys[p.rng.Intn(len(keys))]
			}
			var ch chan struct{}
			if pick >= 0 {
				ch = p.parked[pick]
				delete(p.parked, pick)
			}
			p.mu.Unlock()
			if ch != nil {
				close(ch)
				if p.rng.Intn(3) == 0 {
					time.Sleep(time.Duration(p.rng.Intn(100)) * time.Microsecond)
				}
			} else {
				select {
				case <-p.notify:
				case <-time.After(300 * time.Microsecond):
				case <-p.done:
					return
				}
			}
		}
	}()

	finished := make(chan struct{})
	go func() {
		defer close(finished)
		defer func() {
			if r := recover(); r != nil {
				p.log(Event{"ev": "panic", "msg": fmt.Sprint(r)})
			}
		}()
		for r := 1; r <= cfg.Rounds; r++ {
			var join, subsDone sync.WaitGroup
			subsDone.Add(cfg.S)
			for s := 1; s <= cfg.S; s++ {
				join.Add(1)
				go func(r, s int) {
					defer join.Done()
					for j := 1; j <= cfg.Per; j++ {
						if subGates {
							<-p.subGate[s]
						}
						t := taskID(r, s, j)
						p.log(Event{"ev": "submit", "task": t, "sub": s})
						pool.Submit(body(t))
						p.log(Event{"ev": "submitret", "task": t, "sub": s})
					}
					if cfg.SelfWait {
						// this goroutine waits for the pool itself; the tasks stay parked until every submitter
						// is waiting, so the Waits overlap.  All submissions of the round happen before the first
						// Wait (sync.WaitGroup: an Add that meets a zero counter must happen before Wait).
						subsDone.Done()
						subsDone.Wait()
						p.log(Event{"ev": "waitcall", "round": r, "w": s})
						atomic.AddInt32(&p.selfWaiting, 1)
						pool.Wait()
						p.log(Event{"ev": "waitret", "round": r, "w": s})
					}
				}(r, s)
			}
			join.Wait() // sync.WaitGroup forbids Add from zero concurrently with Wait
			if cfg.Early && r == cfg.Rounds {
				break // Close without Wait
			}
			p.log(Event{"ev": "waitcall", "round": r})
			pool.Wait()
			seen := 0
			for rr := 1; rr <= r; rr++ {
				for s := 1; s <= cfg.S; s++ {
					for j := 1; j <= cfg.Per; j++ {
						if *cells[taskID(rr, s, j)] == taskID(rr, s, j) { // plain read
							seen++
						}
					}
				}
			}
			p.log(Event{"ev": "waitret", "round": r, "seen": seen, "submitted": r * cfg.S * cfg.Per})
		}
		p.log(Event{"ev": "closecall"})
		pool.Close()
		p.log(Event{"ev": "closeret"})
		// all of the pool's goroutines must terminate
		alive := 0
		for i := 0; i < 400; i++ {
			alive = poolWorkersAlive() - base
			if alive <= 0 {
				break
			}
			time.Sleep(5 * time.Millisecond)
		}
		if alive < 0 {
			alive = 0
		}
		p.log(Event{"ev": "leak", "n": alive})
	}()
	select {
	case <-finished:
	case <-time.After(15 * time.Second):
		p.log(Event{"ev": "hang"})
	}
	close(p.done)
	p.mu.Lock()
	defer p.mu.Unlock()
	if p.stuck {
		p.events = append(p.events, Event{"ev": "stuck"})
	}
	return append([]Event{}, p.events...)
}

func poolStepsFromHistory(h []any) ([]poolStep, []evKey) {
	var steps []poolStep
	keys := make([]evKey, len(h))
	for i, ev := range h {
		e := asMap(ev)
		switch asStr(e["ev"]) {
		case "submit", "submitret", "taskstart", "taskend":
			keys[i] = evKey{asStr(e["ev"]), asInt(e["task"])}
		}
		switch asStr(e["ev"]) {
		case "submit":
			steps = append(steps, poolStep{Kind: "submit", Sub: asInt(e["sub"]), Task: asInt(e["task"]), Before: i})
		case "taskend":
			steps = append(steps, poolStep{Kind: "taskend", Task: asInt(e["task"]), Before: i})
		}
	}
	return steps, keys
}

// runLateSubmit: task 1 is long (gated); the main goroutine calls Wait while it runs; meanwhile another
// goroutine submits short tasks that complete. Legal for a WaitGroup (the counter never reaches zero while
// the long task runs). Wait must not return before the long task has finished.
func runLateSubmit(workers, shorts int) []Event {
	var mu sync.Mutex
	var evs []Event
	log := func(e Event) { mu.Lock(); evs = append(evs, e); mu.Unlock() }
	pool := flyt.NewWorkerPool(workers)
	gate := make(chan struct{})
	long := 1000001
	cells := map[int]*int{long: new(int)}
	for j := 1; j <= shorts; j++ {
		cells[2000000+j] = new(int)
	}
	task := func(t int, gated bool) func() {
		return func() {
			log(Event{"ev": "taskstart", "task": t, "gid": 0})
			if gated {
				select {
				case <-gate:
				case <-time.After(5 * time.Second):
				}
			}
			*cells[t] = t
			log(Event{"ev": "taskend", "task": t, "gid": 0})
		}
	}
	log(Event{"ev": "submit", "task": long, "sub": 1})
	pool.Submit(task(long, true))
	log(Event{"ev": "submitret", "task": long, "sub": 1})
	waited := make(chan struct{})
	go func() {
		log(Event{"ev": "waitcall", "round": 1})
		pool.Wait()
		seen := 0
		if *cells[long] == long {
			seen = 1
		}
		log(Event{"ev": "waitret", "round": 1, "seen": seen, "submitted": 1})
		close(waited)
	}()
	time.Sleep(2 * time.Millisecond) // let Wait block
	for j := 1; j <= shorts; j++ {
		t := 2000000 + j
		log(Event{"ev": "submit", "task": t, "sub": 2})
		pool.Submit(task(t, false))
		log(Event{"ev": "submitret", "task": t, "sub": 2})
	}
	time.Sleep(5 * time.Millisecond) // the short tasks complete while the long one is still running
	close(gate)
	select {
	case <-waited:
	case <-time.After(10 * time.Second):
		log(Event{"ev": "hang"})
	}
	pool.Wait()
	log(Event{"ev": "closecall"})
	pool.Close()
	log(Event{"ev": "closeret"})
	log(Event{"ev": "leak", "n": 0})
	mu.Lock()
	defer mu.Unlock()
	return append([]Event{}, evs...)
}

func init() {
	families["pool"] = func(o *Out, scnFile string, seed int64, count int, modes string, opts map[string]string) {
		id := 0
		maxScn := 0
		if ms := opts["maxscn"]; ms != "" {
			fmt.Sscanf(ms, "%d", &maxScn)
		}
		if rp := opts["replay"]; rp != "" {
			for _, line := range readLines(rp) {
				cfg := parsePoolCfg(asMap(line["cfg"]))
				var exp []any
				var steps []poolStep
				var keys []evKey
				if asStr(line["src"]) == "tlc" {
					exp = asList(line["exp"])
					steps, keys = poolStepsFromHistory(exp)
				}
				if cfg.Sched == "paced" {
					chunks := runPoolPaced(cfg.W, 60000, 40, 1000000)
					c := chunks[len(chunks)-1]
					for _, x := range chunks {
						if hasHang(x.evs) {
							c = x
							break
						}
					}
					o.WriteScenario(asInt(line["scn"]), "pool", asStr(line["src"]), c.cfg.toJSON(), nil, c.evs)
					continue
				}
				evs := runPoolScenario(cfg, steps, keys, seed)
				o.WriteScenario(asInt(line["scn"]), "pool", asStr(line["src"]), cfg.toJSON(), exp, evs)
			}
			return
		}
		if scnFile != "" {
			lines := readLines(scnFile)
			step := 1
			if maxScn > 0 && len(lines) > maxScn {
				step = len(lines)/maxScn + 1
			}
			for li, line := range lines {
				if (li+int(seed))%step != 0 {
					continue
				}
				cfg := parsePoolCfg(asMap(line["cfg"]))
				cfg.Sched = "script"
				exp := asList(line["h"])
				if tooManyHangs() {
					break
				}
				steps, keys := poolStepsFromHistory(exp)
				evs := runPoolScenario(cfg, steps, keys, seed)
				noteHang(evs)
				id++
				o.WriteScenario(id, "pool", "tlc", cfg.toJSON(), exp, evs)
			}
		}
		for mi, mode := range strings.Split(modes, ",") {
			if mode == "" || count == 0 {
				continue
			}
			r := rand.New(rand.NewSource(seed*104729 + int64(mi)))
			if mode == "paced" {
				// tens of thousands of tiny rounds on one small pool; the pause between the two submissions of a round
				// sweeps over the duration of a task, so that a Submit meets a worker in every stage of going idle
				for _, size := range []int{1, 0, 2} {
					rounds := 600 * count
					if tooManyHangs() {
						break
					}
					chunks := runPoolPaced(size, rounds, 40, 25)
					for _, c := range chunks {
						noteHang(c.evs)
						id++
						o.WriteScenario(id, "pool", "gen:paced", c.cfg.toJSON(), nil, c.evs)
					}
				}
				continue
			}
			if mode == "latesubmit" {
				for i := 0; i < 6; i++ {
					w, k := 2+r.Intn(4), 3+r.Intn(20)
					id++
					o.WriteScenario(id, "pool", "gen:latesubmit", PoolCfg{W: w, S: 2, Per: k, Rounds: 1, Sched: "latesubmit"}.toJSON(), nil, runLateSubmit(w, k))
				}
				continue
			}
			for i := 0; i < count; i++ {
				cfg := PoolCfg{W: r.Intn(18) - 1, S: 1 + r.Intn(4), Per: r.Intn(12), Rounds: 1 + r.Intn(3), Sched: []string{"random", "free"}[r.Intn(2)]}
				switch mode {
				case "big": // far beyond the 2*workers queue
					cfg.W = r.Intn(5) - 1
					cfg.Per = 20 + r.Intn(105)
					if cfg.Per*cfg.S*cfg.Rounds > 500 {
						cfg.Per = 500 / (cfg.S * cfg.Rounds)
					}
					cfg.Sched = "free"
				case "barrier":
					if r.Intn(3) == 0 {
						old := runtime.GOMAXPROCS(2) // fewer processors than workers
						defer runtime.GOMAXPROCS(old)
					}
					cfg.W = 1 + r.Intn(16)
					cfg.S = 1 + r.Intn(2)
					cfg.Per = (cfg.W+cfg.S-1)/cfg.S + r.Intn(4)
					cfg.Rounds = 1
					cfg.Sched = "barrier"
				case "small":
					cfg.W = r.Intn(5) - 1
					cfg.Per = r.Intn(5)
				case "selfwait": // several goroutines submit and then wait themselves: overlapping Waits
					cfg.W = r.Intn(4)
					cfg.S = 2 + r.Intn(3)
					cfg.Per = 1 + r.Intn(2)
					cfg.Rounds = 1 + r.Intn(2)
					cfg.Sched = "random"
					cfg.SelfWait = true
					nw := cfg.W
					if nw < 1 {
						nw = 1
					}
					// every Submit must be able to return while all tasks are parked: no more tasks per round than the
					// workers and the queue of THIS tree's pool hold together (the queue's size is read off the pool)
					room := nw
					if q := poolQCap(cfg.W); q > 0 {
						room += q
					}
					if cfg.S*cfg.Per > room {
						cfg.Per = 1
					}
					if cfg.S > room {
						cfg.S = room
					}
				case "earlyclose": // Close without Wait: conformance with the specification only, no verdict
					cfg.W = r.Intn(4)
					cfg.S = 1 + r.Intn(2)
					cfg.Per = 1 + r.Intn(3)
					cfg.Rounds = 1
					cfg.Sched = "free"
					cfg.Early = true
				case "full": // more tasks than queue slots and workers together, nothing finishes until Submit blocks
					cfg.W = r.Intn(4) - 1
					nw := cfg.W
					if nw < 1 {
						nw = 1
					}
					cfg.S = 1 + r.Intn(2)
					cfg.Per = (3*nw+cfg.S)/cfg.S + r.Intn(3)
					cfg.Rounds = 1 + r.Intn(2)
					cfg.Sched = "full"
				}
				if tooManyHangs() {
					break
				}
				evs := runPoolScenario(cfg, nil, nil, r.Int63())
				noteHang(evs)
				id++
				if cfg.Early {
					o.WriteScenario(id, "poolearly", "gen:"+mode, cfg.toJSON(), nil, evs)
					continue
				}
				o.WriteScenario(id, "pool", "gen:"+mode, cfg.toJSON(), nil, evs)
			}
		}
	}
}

// ---- paced rounds ---------------------------------------------------------------

type pacedChunk struct {
	cfg PoolCfg
	evs []Event
}

func hasHang(evs []Event) bool {
	for _, e := range evs {
		if e["ev"] == "hang" {
			return true
		}
	}
	return false
}

var pacedSink int

// runPoolPaced runs `rounds` rounds of  Submit, pause, Submit, Wait  on ONE pool of the given size and cuts the history
// into slices of `chunk` rounds (a round ends with Wait, so every slice is a complete history of its own tasks on a pool
// that stays open).  Every `every`-th slice is returned, and always the slice in which Wait did not return; the last
// slice closes the pool and probes for leaked workers.
func runPoolPaced(size, rounds, chunk, every int) []pacedChunk {
	var out []pacedChunk
	var mu sync.Mutex
	var cur []Event
	logEv := func(e Event) {
		mu.Lock()
		cur = append(cur, e)
		mu.Unlock()
	}
	base := poolWorkersAlive()
	pool := flyt.NewWorkerPool(size)
	cells := [2]int{}
	var progress int64
	finished := make(chan struct{})
	cut := func(r int, open bool) {
		mu.Lock()
		evs := cur
		cur = nil
		mu.Unlock()
		if (r/chunk)%every == 0 || !open {
			out = append(out, pacedChunk{PoolCfg{W: size, S: 1, Per: 2, Rounds: chunk, Sched: "paced", Open: open}, evs})
		}
	}
	go func() {
		defer close(finished)
		for r := 1; r <= rounds; r++ {
			cells[0], cells[1] = 0, 0
			for j := 0; j < 2; j++ {
				t := 10*r + j + 1
				cell := &cells[j]
				logEv(Event{"ev": "submit", "task": t, "sub": 1})
				pool.Submit(func() {
					logEv(Event{"ev": "taskstart", "task": t, "gid": 0})
					*cell = t
					logEv(Event{"ev": "taskend", "task": t, "gid": 0})
				})
				logEv(Event{"ev": "submitret", "task": t, "sub": 1})
				if j == 0 {
					for k := 0; k < (r%97)*300; k++ { // the swept pause (0 .. some tens of microseconds)
						pacedSink += k
					}
				}
			}
			logEv(Event{"ev": "waitcall", "round": r})
			pool.Wait()
			seen := 0
			for j := 0; j < 2; j++ {
				if cells[j] == 10*r+j+1 {
					seen++
				}
			}
			logEv(Event{"ev": "waitret", "round": r, "seen": seen, "submitted": 2})
			atomic.AddInt64(&progress, 1)
			if r%chunk == 0 && r < rounds {
				cut(r, true)
			}
		}
		logEv(Event{"ev": "closecall"})
		pool.Close()
		logEv(Event{"ev": "closeret"})
		alive := 0
		for i := 0; i < 400; i++ {
			alive = poolWorkersAlive() - base
			if alive <= 0 {
				break
			}
			time.Sleep(5 * time.Millisecond)
		}
		if alive < 0 {
			alive = 0
		}
		logEv(Event{"ev": "leak", "n": alive})
	}()
	last := int64(-1)
	for {
		select {
		case <-finished:
			cut(0, false)
			return out
		case <-time.After(3 * time.Second):
			now := atomic.LoadInt64(&progress)
			if now == last {
				// no round completed for three seconds: Submit or Wait does not return
				logEv(Event{"ev": "hang"})
				mu.Lock()
				evs := cur
				mu.Unlock()
				out = append(out, pacedChunk{PoolCfg{W: size, S: 1, Per: 2, Rounds: chunk, Sched: "paced", Open: true}, append([]Event{}, evs...)})
				return out
			}
			last = now
		}
	}
}
