package main

// Seeded random scenarios for the engine family, well beyond the bounds TLC
// enumerates: up to 12 nodes, 5 actions, nesting depth 4, cycles, self-loops,
// overwritten and nil connections, prefix-sharing action names, several runs of
// one flow object with re-connection in between; systematic fault / cancel
// injection at every position of an executed path.

import (
	"fmt"
	"hash/fnv"
	"math/rand"
)

type genParams struct {
	Mode      string
	MaxLeaves int
	MaxFlows  int
	MaxN      int
	MaxRuns   int
	PPrepErr  float64
	PExecErr  float64
	PFbErr    float64
	PPostErr  float64
	PCancel   float64
	PNil      float64
	PEres     float64
	PShared   float64 // probability that a plain retryable struct leaf is built on the shared BaseNode
	PBig      float64 // probability that a retryable leaf gets a budget beyond 32 bits
	PZero     float64 // probability that a leaf is a zero-size node type (all of them share one address)
	PDyn      float64 // probability that a post callback makes one of the pending Connect calls (dynamic wiring)
	PPanic    float64 // probability that a prep / exec / post callback panics
	PBLeaf    float64 // probability that a leaf is a (one-item) batch node
	PEmptyAct float64
	MaxVisits int
}

// hashScript: outcome of every callback is a pure function of (seed, key)
type hashScript struct {
	seed      uint64
	p         genParams
	acts      []int
	posts     int
	override  map[skey]func(Outcome) Outcome
	funcExecR map[int]bool // nodes whose exec is Result-style (may return error results)
}

func (h *hashScript) u(k skey, salt int) float64 {
	f := fnv.New64a()
	var b [8]byte
	put := func(x uint64) {
		for i := 0; i < 8; i++ {
			b[i] = byte(x >> (8 * i))
		}
		f.Write(b[:])
	}
	put(h.seed)
	put(uint64(k.Run))
	put(uint64(k.Node))
	put(uint64(k.Visit))
	put(uint64(k.K))
	put(uint64(salt))
	f.Write([]byte(k.Phase))
	return float64(f.Sum64()>>11) / float64(1<<53)
}

func (h *hashScript) Get(k skey) Outcome {
	var o Outcome
	switch k.Phase {
	case "prep":
		o.Out = "ok"
		if h.u(k, 1) < h.p.PPrepErr {
			o.Out = "err"
		} else if h.u(k, 2) < h.p.PNil {
			o.Nil = true
		}
	case "exec":
		o.Out = "ok"
		x := h.u(k, 1)
		if x < h.p.PExecErr {
			o.Out = "err"
		} else if h.funcExecR[k.Node] && h.u(k, 3) < h.p.PEres {
			o.Out = "eres"
		} else if h.u(k, 2) < h.p.PNil {
			o.Nil = true
		}
	case "fb":
		o.Out = "ok"
		if h.u(k, 1) < h.p.PFbErr {
			o.Out = "err"
		} else if h.u(k, 2) < h.p.PNil {
			o.Nil = true
		}
	case "post":
		h.posts++
		o.Out = "ok"
		if h.u(k, 1) < h.p.PPostErr {
			o.Out = "err"
		} else if h.posts > h.p.MaxVisits {
			o.Act = 99
		} else if h.u(k, 4) < h.p.PEmptyAct {
			o.Act = 0
		} else {
			o.Act = h.acts[int(h.u(k, 2)*float64(len(h.acts)))%len(h.acts)]
		}
	}
	if h.u(k, 9) < h.p.PCancel {
		o.Cancel = true
	}
	if h.p.Mode == "zerocancel" && k.Phase == "prep" && h.u(k, 14) < 0.3 {
		o.Cancel = true // the context is cancelled from inside prep: the check after prep must see it whatever the budget
	}
	if k.Phase == "post" && h.p.PDyn > 0 && h.u(k, 12) < h.p.PDyn {
		o.Conns = 1 + int(h.u(k, 13)*2)
	}
	if k.Phase != "fb" && h.p.PPanic > 0 && h.u(k, 11) < h.p.PPanic {
		o = Outcome{Out: "panic"}
	}
	if f, ok := h.override[k]; ok {
		o = f(o)
	}
	return o
}

func genEngineCfg(r *rand.Rand, p genParams) EngineCfg {
	var c EngineCfg
	nLeaves := 1 + r.Intn(p.MaxLeaves)
	nFlows := 0
	if p.MaxFlows > 0 {
		nFlows = r.Intn(p.MaxFlows + 1)
	}
	styles := []string{"r", "a"}
	for i := 0; i < nLeaves; i++ {
		n := NodeCfg{Kind: "leaf", Sty: []string{"-", "-", "-"}, N: 1}
		pick := r.Intn(9)
		if p.PBLeaf > 0 && r.Float64() < p.PBLeaf {
			pick = 8
		}
		if p.PZero > 0 && i < 8 && r.Float64() < p.PZero {
			n.Gk = "zerosize" // stateless nodes: pointers to distinct zero-size types
			c.Nodes = append(c.Nodes, n)
			continue
		}
		switch pick {
		case 8: // a batch node as a flow step
			if p.MaxFlows > 0 {
				n.Kind, n.Retry = "bleaf", true
				n.N = 1 + r.Intn(p.MaxN)
			}
		case 0, 4: // function node
			n.Func, n.Retry, n.Fb = true, true, r.Intn(2) == 0
			n.Sty = []string{styles[r.Intn(2)], styles[r.Intn(2)], styles[r.Intn(2)]}
			n.N = 1 + r.Intn(p.MaxN)
		case 1, 5:
			n.Retry, n.Fb = false, r.Intn(2) == 0
		default:
			n.Retry, n.Fb = true, r.Intn(2) == 0
			n.N = 1 + r.Intn(p.MaxN)
		}
		if p.PShared > 0 && n.Kind == "leaf" && r.Float64() < p.PShared {
			// struct nodes built on one shared BaseNode object
			n.Func, n.Retry, n.Fb, n.Sty = false, true, false, []string{"-", "-", "-"}
			n.Gk = "structsh"
			n.N = 1 + r.Intn(2)
		}
		if p.PBig > 0 && n.Retry && n.Kind == "leaf" && r.Float64() < p.PBig {
			n.Big = 1 + r.Intn(len(bigBudgets)-1)
			n.N = bigStandIn
		}
		c.Nodes = append(c.Nodes, n)
	}
	nActs := 1 + r.Intn(5)
	if p.Mode == "wide" {
		nActs = 9 + r.Intn(5) // a node with more outgoing actions than a small inline table holds
	}
	// the default action and a random choice of the others (case variants, prefixes of each other, blank-looking names)
	c.Acts = append(c.Acts, 1)
	others := []int{2, 3, 4, 5, 6, 7, 8, 9, 10, 11, 12, 13, 14}
	r.Shuffle(len(others), func(i, j int) { others[i], others[j] = others[j], others[i] })
	c.Acts = append(c.Acts, others[:nActs-1]...)
	members := map[int][]int{}
	for j := 0; j < nFlows; j++ {
		id := nLeaves + j + 1
		// members: random non-empty subset of lower-numbered nodes; the previous flow is
		// included with high probability so that hierarchies get deep
		var ms []int
		for m := 1; m < id; m++ {
			pr := 0.45
			if m == id-1 && m > nLeaves {
				pr = 0.8
			}
			if r.Float64() < pr {
				ms = append(ms, m)
			}
		}
		if len(ms) == 0 {
			ms = []int{1 + r.Intn(id-1)}
		}
		members[id] = ms
		start := ms[r.Intn(len(ms))]
		if p.Mode == "nilstart" && r.Intn(4) == 0 {
			start = 0
			c.Nilstart = true
		}
		fn := 1
		if p.Mode == "flowretry" && r.Intn(2) == 0 {
			fn = 2 + r.Intn(2)
		}
		c.Nodes = append(c.Nodes, NodeCfg{Kind: "flow", Retry: true, N: fn, Sty: []string{"-", "-", "-"}, Start: start})
		if p.Mode == "recur" {
			// a flow may contain itself, or a flow that contains it: a step (never the start) of flow id is flow id again or an
			// enclosing one; the recursion ends when the actions of a later visit lead elsewhere
			if r.Intn(3) != 0 {
				members[id] = append(members[id], id)
			}
			if j+1 < nFlows && r.Intn(2) == 0 {
				members[id] = append(members[id], id+1+r.Intn(nFlows-j-1))
			}
		}
	}
	c.Top = len(c.Nodes)
	c.Runs = 1 + r.Intn(p.MaxRuns)
	for run := 0; run < c.Runs; run++ {
		var ops []ConnOp
		for id, ms := range members {
			_ = id
			_ = ms
		}
		for j := 0; j < nFlows; j++ {
			id := nLeaves + j + 1
			ms := members[id]
			nOps := r.Intn(2*len(ms)*nActs + 1)
			if run > 0 {
				nOps = r.Intn(len(ms) + 1)
				if p.Mode == "wide" {
					nOps = len(ms) + r.Intn(2*len(ms)+1) // overwrite entries of full tables
				}
			}
			for o := 0; o < nOps; o++ {
				to := 0
				if r.Intn(6) != 0 {
					to = ms[r.Intn(len(ms))]
				}
				act := c.Acts[r.Intn(nActs)]
				if r.Intn(12) == 0 {
					act = 0 // a connection on the empty action: its own table entry, which no run ever follows
				}
				ops = append(ops, ConnOp{Flow: id, From: ms[r.Intn(len(ms))], Act: act, To: to})
			}
		}
		c.Conns = append(c.Conns, ops)
		c.Ctx0 = append(c.Ctx0, p.PCancel > 0 && r.Intn(12) == 0)
	}
	if p.PDyn > 0 {
		c.Dyn = true
		for _, ops := range c.Conns {
			c.Pre = append(c.Pre, r.Intn(len(ops)+1))
		}
	}
	if p.Mode == "zerobudget" || p.Mode == "zerocancel" {
		// a retry budget of zero or less: the attempt loop never runs (outside every property; conformance with the
		// specification only)
		for i := range c.Nodes {
			// (leaves only: a flow with such a budget does nothing, and on a cycle of its parent the run spins for ever;
			// flows with a budget below one are part of the model-checked family, off any cycle)
			if c.Nodes[i].Retry && c.Nodes[i].Kind != "flow" && r.Intn(2) == 0 {
				c.Nodes[i].N = -r.Intn(2)
			}
		}
	}
	c.Outs = []string{"ok", "err"}
	if p.PPanic > 0 {
		c.Outs = append(c.Outs, "panic")
	}
	c.Cancel = p.PCancel > 0
	c.CtxKind = "cancel"
	if c.Cancel {
		c.CtxKind = []string{"cancel", "deadline", "cause"}[r.Intn(3)]
	}
	c.Variant = r.Intn(2)
	return c
}

func newHashScript(seed uint64, p genParams, c EngineCfg) *hashScript {
	h := &hashScript{seed: seed, p: p, acts: c.Acts, override: map[skey]func(Outcome) Outcome{}, funcExecR: map[int]bool{}}
	for i, n := range c.Nodes {
		if n.Func && n.Sty[1] == "r" {
			h.funcExecR[i+1] = true
		}
	}
	return h
}

func paramsFor(mode string) genParams {
	p := genParams{Mode: mode, MaxLeaves: 8, MaxFlows: 4, MaxN: 4, MaxRuns: 3, MaxVisits: 14, PEmptyAct: 0.1}
	switch mode {
	case "plain": // successful paths with retries and fallbacks
		p.PExecErr, p.PFbErr, p.PEres = 0.35, 0.0, 0.15
		p.PBig = 0.12
	case "single": // one node, everything can fail
		p.MaxLeaves, p.MaxFlows, p.MaxRuns, p.MaxN = 1, 0, 3, 8 // up to three runs of the same node object
		p.PPrepErr, p.PExecErr, p.PFbErr, p.PPostErr, p.PNil, p.PEres = 0.08, 0.6, 0.4, 0.1, 0.15, 0.2
		p.PBig = 0.1
	case "flowretry": // flows with a retry budget of their own: a failing sub-flow is executed again from its start
		p.MaxFlows, p.MaxLeaves, p.MaxRuns, p.MaxVisits = 3, 4, 1, 10
		p.PExecErr, p.PFbErr, p.PPostErr = 0.45, 0.5, 0.05
	case "err", "faultenum", "nilstart":
		p.PPrepErr, p.PExecErr, p.PFbErr, p.PPostErr, p.PNil, p.PEres = 0.03, 0.4, 0.3, 0.03, 0.1, 0.1
		if mode == "faultenum" {
			p.PPrepErr, p.PPostErr, p.PFbErr = 0, 0, 0
			p.PExecErr = 0.25
			p.MaxVisits = 8
		}
	case "cancel", "cancelenum":
		p.PExecErr, p.PFbErr = 0.3, 0.2
		p.PCancel = 0.06
		if mode == "cancelenum" {
			p.PCancel = 0
			p.MaxVisits = 8
		}
	case "zs": // most leaves are stateless nodes of zero-size types
		p.MaxFlows, p.MaxLeaves, p.MaxRuns = 3, 6, 2
		p.PZero = 0.8
	case "dynwire": // some Connect calls are made from inside post callbacks while the flow runs
		p.MaxFlows, p.MaxLeaves, p.MaxRuns = 3, 5, 2
		p.PExecErr, p.PDyn = 0.1, 0.5
	case "panic": // a callback panics (with a string or with an error value)
		p.MaxFlows, p.MaxLeaves, p.MaxRuns = 2, 4, 2
		p.PExecErr, p.PPanic = 0.3, 0.12
	case "zerobudget":
		p.MaxFlows, p.MaxLeaves, p.MaxRuns = 2, 4, 1
		p.PExecErr, p.PFbErr = 0.3, 0.3
	case "zerocancel": // budgets below one with cancellations (also from inside prep)
		p.MaxFlows, p.MaxLeaves, p.MaxRuns = 2, 4, 1
		p.PExecErr, p.PCancel = 0.2, 0.12
	case "batchflow": // flows whose steps are mostly batch nodes, cancelled from inside an item
		p.PBLeaf = 0.75
		p.MaxFlows, p.MaxLeaves, p.MaxRuns = 2, 4, 2
		p.PExecErr, p.PCancel = 0.3, 0.1
	case "sh": // most steps are distinct struct nodes that embed one and the same BaseNode object
		p.MaxFlows, p.MaxLeaves, p.MaxRuns = 2, 6, 2
		p.PShared, p.PExecErr = 0.9, 0.2
	case "wide": // hubs with nine and more outgoing actions, re-connected between the runs
		p.MaxFlows, p.MaxLeaves, p.MaxRuns, p.MaxVisits = 2, 3, 3, 10
	case "recur": // flows that contain themselves, directly or through another flow
		p.MaxFlows, p.MaxLeaves, p.MaxRuns, p.MaxVisits = 3, 4, 2, 12
		p.PExecErr, p.PFbErr = 0.15, 0.3
	case "nest": // deep hierarchies, no failures
		p.MaxFlows, p.MaxLeaves = 5, 6
		p.PExecErr = 0.1
	}
	return p
}

// keyOfEvent recovers the script key of a recorded callback event
func keysOfHistory(evs []Event) []skey {
	var keys []skey
	run := 0
	visits := map[int]int{}
	for _, e := range evs {
		node, _ := e["node"].(int)
		switch e["ev"] {
		case "runcall":
			run++
			visits = map[int]int{}
		case "prep":
			visits[node]++
			keys = append(keys, skey{run, node, visits[node], "prep", 0})
		case "exec":
			keys = append(keys, skey{run, node, visits[node], "exec", e["k"].(int)})
		case "fb":
			keys = append(keys, skey{run, node, visits[node], "fb", 0})
		case "post":
			keys = append(keys, skey{run, node, visits[node], "post", 0})
		}
	}
	return keys
}

// scriptForGenerated rebuilds the script of a generated scenario from its configuration
func scriptForGenerated(cfg EngineCfg) Script {
	if cfg.GenMode == "longchain" {
		return allDefaultScript{}
	}
	if cfg.GenMode == "longloop" || cfg.GenMode == "hugeloop" {
		var rounds int
		fmt.Sscanf(cfg.GenSeed, "%d", &rounds)
		return longLoopScript{rounds}
	}
	var seed uint64
	fmt.Sscanf(cfg.GenSeed, "%d", &seed)
	p := paramsFor(cfg.GenMode)
	s := newHashScript(seed, p, cfg)
	if len(cfg.OvKey) == 4 {
		k := skey{cfg.OvKey[0], cfg.OvKey[1], cfg.OvKey[2], cfg.OvPhase, cfg.OvKey[3]}
		if cfg.OvKind == "err" {
			s.override[k] = func(o Outcome) Outcome { o.Out = "err"; o.Nil = false; return o }
		} else {
			s.override[k] = func(o Outcome) Outcome { o.Cancel = true; return o }
		}
	}
	return s
}

// genEngineScenarios produces count base scenarios (and, in the *enum modes, one
// derived scenario per position of the base execution) and runs them.
// longLoopCfg: a body (an inner flow around one node) repeated by its parent more than a thousand times until the node
// says "done": a legitimately long run, with more steps at one flow level than any fixed small bound
func longLoopCfg(rounds int) EngineCfg {
	leaf := func() NodeCfg { return NodeCfg{Kind: "leaf", Sty: []string{"-", "-", "-"}, N: 1, Gk: "plain"} }
	c := EngineCfg{Top: 3, Runs: 1, Acts: []int{1, 2, 3}, Outs: []string{"ok"}, CtxKind: "cancel", GenMode: "longloop", GenSeed: fmt.Sprint(rounds)}
	c.Nodes = []NodeCfg{leaf(),
		{Kind: "flow", Retry: true, N: 1, Sty: []string{"-", "-", "-"}, Start: 1, Gk: "flow"},
		{Kind: "flow", Retry: true, N: 1, Sty: []string{"-", "-", "-"}, Start: 2, Gk: "flow"}}
	c.Conns = [][]ConnOp{{{3, 2, 2, 2}}}
	c.Ctx0 = []bool{false}
	return c
}

// the script of the long loop: everything succeeds; the third node answers "again" (2) until the last round, then "done" (3)
type longLoopScript struct{ rounds int }

// everything succeeds and answers the default action
type allDefaultScript struct{}

func (allDefaultScript) Get(k skey) Outcome { return Outcome{Out: "ok", Act: 1} }

func (l longLoopScript) Get(k skey) Outcome {
	o := Outcome{Out: "ok", Act: 1}
	if k.Phase == "post" && k.Node == 1 {
		o.Act = 2
		if k.Visit >= l.rounds {
			o.Act = 3
		}
	}
	return o
}

func genEngineScenarios(seed int64, count int, mode string, emit func(cfg EngineCfg, src string, evs []Event)) {
	if mode == "longloop" {
		cfg := longLoopCfg(1005)
		evs, _ := runEngineScenario(cfg, scriptForGenerated(cfg))
		emit(cfg, "gen:longloop", evs)
		return
	}
	if mode == "longchain" {
		// a straight chain of several hundred distinct nodes (more than an 8-bit index holds): a table with one entry per node
		n := 300 + int(seed%7)
		cfg := EngineCfg{Top: n + 1, Runs: 1, Acts: []int{1, 2, 3}, Outs: []string{"ok"}, CtxKind: "cancel", GenMode: "longchain", GenSeed: fmt.Sprint(n)}
		var ops []ConnOp
		for i := 1; i <= n; i++ {
			cfg.Nodes = append(cfg.Nodes, NodeCfg{Kind: "leaf", Sty: []string{"-", "-", "-"}, N: 1, Gk: "plain"})
			if i < n {
				ops = append(ops, ConnOp{n + 1, i, 1, i + 1})
			}
		}
		cfg.Nodes = append(cfg.Nodes, NodeCfg{Kind: "flow", Retry: true, N: 1, Sty: []string{"-", "-", "-"}, Start: 1, Gk: "flow"})
		cfg.Conns = [][]ConnOp{ops}
		cfg.Ctx0 = []bool{false}
		evs, _ := runEngineScenario(cfg, scriptForGenerated(cfg))
		emit(cfg, "gen:longchain", evs)
		return
	}
	if mode == "hugeloop" {
		// the same body for more rounds than a 16-bit counter holds; the callbacks are counted, not kept
		cfg := longLoopCfg(70000 + int(seed%7))
		cfg.GenMode = "hugeloop"
		evs, _ := runEngineScenario(cfg, scriptForGenerated(cfg))
		emit(cfg, "gen:hugeloop", evs)
		return
	}
	r := rand.New(rand.NewSource(seed))
	p := paramsFor(mode)
	for i := 0; i < count && !tooManyHangs(); i++ {
		cfg := genEngineCfg(r, p)
		cfg.GenSeed = fmt.Sprintf("%d", r.Uint64())
		cfg.GenMode = mode
		cfg.Outs = []string{"ok", "err", "nil", "eres"}
		if p.PPanic > 0 {
			cfg.Outs = append(cfg.Outs, "panic")
		}
		assignKinds(&cfg)
		evs, _ := runEngineScenario(cfg, scriptForGenerated(cfg))
		emit(cfg, "gen:"+mode, evs)
		if mode != "faultenum" && mode != "cancelenum" {
			continue
		}
		keys := keysOfHistory(evs)
		// every position on the executed path (capped, evenly spread)
		step := 1
		if len(keys) > 24 {
			step = len(keys)/24 + 1
		}
		for j := 0; j < len(keys); j += step {
			k := keys[j]
			cfg2 := cfg
			cfg2.OvKey = []int{k.Run, k.Node, k.Visit, k.K}
			cfg2.OvPhase = k.Phase
			if mode == "faultenum" {
				cfg2.OvKind = "err"
			} else {
				cfg2.OvKind = "cancel"
				cfg2.Cancel = true
				cfg2.CtxKind = []string{"deadline", "cancel", "cause"}[(i+j)%3]
			}
			evs2, _ := runEngineScenario(cfg2, scriptForGenerated(cfg2))
			emit(cfg2, "gen:"+mode, evs2)
		}
	}
}
