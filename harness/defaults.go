package main

// Nodes that provide only some of their phases (FlytDefaults.tla): every cell of the table is built as a real node,
// run on its own and as the first step of a flow, and plain facts are logged.

import (
	"context"
	"errors"
	"fmt"

	"github.com/mark3labs/flyt"
)

type dProbe struct {
	pres                        bool // the value prep returns is itself a flyt.Result
	fails                       bool
	xnil                        bool // the exec function answers flyt.NewErrorResult(nil): no error, no value
	prep, exec, fb, post        int
	execarg, postprep, postexec string
	errTok                      error
}

type dPayload struct{ tag string }

func dKind(v any) string {
	switch x := v.(type) {
	case nil:
		return "nil"
	case *dPayload:
		return x.tag
	case flyt.Result:
		if x.IsError() {
			return "err"
		}
		return "res(" + dKind(x.Value()) + ")"
	case int:
		return "item"
	}
	return fmt.Sprintf("other:%T", v)
}

func (p *dProbe) doPrep() (any, error) {
	p.prep++
	if p.pres {
		return flyt.NewResult(&dPayload{"P"}), nil
	}
	return &dPayload{"P"}, nil
}
func (p *dProbe) doExec(arg any) (any, error) {
	p.exec++
	p.execarg = dKind(arg)
	if p.fails {
		return nil, p.errTok
	}
	return &dPayload{"X"}, nil
}
func (p *dProbe) doFb(arg any, err error) (any, error) { p.fb++; return &dPayload{"F"}, nil }
func (p *dProbe) doPost(pv, xv any) (flyt.Action, error) {
	p.post++
	p.postprep, p.postexec = dKind(pv), dKind(xv)
	return "A", nil
}

// the embedded *flyt.BaseNode sits one level deeper than the mix-ins, so a mix-in's method wins over the default
type dBase struct{ *flyt.BaseNode }
type mPrep struct{ p *dProbe }
type mExec struct{ p *dProbe }
type mPost struct{ p *dProbe }
type mFb struct{ p *dProbe }

func (m mPrep) Prep(ctx context.Context, s *flyt.SharedStore) (any, error) { return m.p.doPrep() }
func (m mExec) Exec(ctx context.Context, a any) (any, error)               { return m.p.doExec(a) }
func (m mPost) Post(ctx context.Context, s *flyt.SharedStore, a, b any) (flyt.Action, error) {
	return m.p.doPost(a, b)
}
func (m mFb) ExecFallback(a any, err error) (any, error) { return m.p.doFb(a, err) }

type dS0000 struct {
	dBase
}
type dS0001 struct {
	dBase
	mFb
}
type dS0010 struct {
	dBase
	mPost
}
type dS0011 struct {
	dBase
	mPost
	mFb
}
type dS0100 struct {
	dBase
	mExec
}
type dS0101 struct {
	dBase
	mExec
	mFb
}
type dS0110 struct {
	dBase
	mExec
	mPost
}
type dS0111 struct {
	dBase
	mExec
	mPost
	mFb
}
type dS1000 struct {
	dBase
	mPrep
}
type dS1001 struct {
	dBase
	mPrep
	mFb
}
type dS1010 struct {
	dBase
	mPrep
	mPost
}
type dS1011 struct {
	dBase
	mPrep
	mPost
	mFb
}
type dS1100 struct {
	dBase
	mPrep
	mExec
}
type dS1101 struct {
	dBase
	mPrep
	mExec
	mFb
}
type dS1110 struct {
	dBase
	mPrep
	mExec
	mPost
}
type dS1111 struct {
	dBase
	mPrep
	mExec
	mPost
	mFb
}

func newDStruct(mask int, p *dProbe) flyt.Node {
	switch mask {
	case 0:
		return &dS0000{dBase: dBase{flyt.NewBaseNode()}}
	case 1:
		return &dS0001{dBase: dBase{flyt.NewBaseNode()}, mFb: mFb{p}}
	case 2:
		return &dS0010{dBase: dBase{flyt.NewBaseNode()}, mPost: mPost{p}}
	case 3:
		return &dS0011{dBase: dBase{flyt.NewBaseNode()}, mPost: mPost{p}, mFb: mFb{p}}
	case 4:
		return &dS0100{dBase: dBase{flyt.NewBaseNode()}, mExec: mExec{p}}
	case 5:
		return &dS0101{dBase: dBase{flyt.NewBaseNode()}, mExec: mExec{p}, mFb: mFb{p}}
	case 6:
		return &dS0110{dBase: dBase{flyt.NewBaseNode()}, mExec: mExec{p}, mPost: mPost{p}}
	case 7:
		return &dS0111{dBase: dBase{flyt.NewBaseNode()}, mExec: mExec{p}, mPost: mPost{p}, mFb: mFb{p}}
	case 8:
		return &dS1000{dBase: dBase{flyt.NewBaseNode()}, mPrep: mPrep{p}}
	case 9:
		return &dS1001{dBase: dBase{flyt.NewBaseNode()}, mPrep: mPrep{p}, mFb: mFb{p}}
	case 10:
		return &dS1010{dBase: dBase{flyt.NewBaseNode()}, mPrep: mPrep{p}, mPost: mPost{p}}
	case 11:
		return &dS1011{dBase: dBase{flyt.NewBaseNode()}, mPrep: mPrep{p}, mPost: mPost{p}, mFb: mFb{p}}
	case 12:
		return &dS1100{dBase: dBase{flyt.NewBaseNode()}, mPrep: mPrep{p}, mExec: mExec{p}}
	case 13:
		return &dS1101{dBase: dBase{flyt.NewBaseNode()}, mPrep: mPrep{p}, mExec: mExec{p}, mFb: mFb{p}}
	case 14:
		return &dS1110{dBase: dBase{flyt.NewBaseNode()}, mPrep: mPrep{p}, mExec: mExec{p}, mPost: mPost{p}}
	case 15:
		return &dS1111{dBase: dBase{flyt.NewBaseNode()}, mPrep: mPrep{p}, mExec: mExec{p}, mPost: mPost{p}, mFb: mFb{p}}
	}
	return nil
}

type dCell struct {
	Kind                                string
	Hp, He, Hpo, Hfb, Fails, Pres, Xnil bool
}

func buildDefaultsNode(c dCell, p *dProbe) flyt.Node {
	prepR := func(ctx context.Context, s *flyt.SharedStore) (flyt.Result, error) {
		v, err := p.doPrep()
		return flyt.NewResult(v), err
	}
	prepA := func(ctx context.Context, s *flyt.SharedStore) (any, error) { return p.doPrep() }
	execR := func(ctx context.Context, a flyt.Result) (flyt.Result, error) {
		v, err := p.doExec(a.Value())
		if err != nil {
			return flyt.Result{}, err
		}
		if p.xnil {
			var none error
			return flyt.NewErrorResult(none), nil
		}
		return flyt.NewResult(v), nil
	}
	execA := func(ctx context.Context, a any) (any, error) { return p.doExec(a) }
	postR := func(ctx context.Context, s *flyt.SharedStore, a, b flyt.Result) (flyt.Action, error) {
		return p.doPost(a.Value(), b.Value())
	}
	postA := func(ctx context.Context, s *flyt.SharedStore, a, b any) (flyt.Action, error) { return p.doPost(a, b) }
	fb := func(a any, err error) (any, error) { return p.doFb(a, err) }
	switch c.Kind {
	case "struct":
		mask := 0
		for i, b := range []bool{c.Hp, c.He, c.Hpo, c.Hfb} {
			if b {
				mask |= 8 >> uint(i)
			}
		}
		return newDStruct(mask, p)
	case "funcR", "funcA":
		var opts []any
		r := c.Kind == "funcR"
		if c.Hp {
			if r {
				opts = append(opts, flyt.WithPrepFunc(prepR))
			} else {
				opts = append(opts, flyt.WithPrepFuncAny(prepA))
			}
		}
		if c.He {
			if r {
				opts = append(opts, flyt.WithExecFunc(execR))
			} else {
				opts = append(opts, flyt.WithExecFuncAny(execA))
			}
		}
		if c.Hpo {
			if r {
				opts = append(opts, flyt.WithPostFunc(postR))
			} else {
				opts = append(opts, flyt.WithPostFuncAny(postA))
			}
		}
		if c.Hfb {
			opts = append(opts, flyt.WithExecFallbackFunc(fb))
		}
		return flyt.NewNode(opts...)
	case "builderR", "builderA":
		b := flyt.NewNode()
		r := c.Kind == "builderR"
		if c.Hp {
			if r {
				b = b.WithPrepFunc(prepR)
			} else {
				b = b.WithPrepFuncAny(prepA)
			}
		}
		if c.He {
			if r {
				b = b.WithExecFunc(execR)
			} else {
				b = b.WithExecFuncAny(execA)
			}
		}
		if c.Hpo {
			if r {
				b = b.WithPostFunc(postR)
			} else {
				b = b.WithPostFuncAny(postA)
			}
		}
		if c.Hfb {
			b = b.WithExecFallbackFunc(fb)
		}
		return b
	case "batch":
		b := flyt.NewBatchNode()
		if c.Hp {
			b = b.WithPrepFunc(func(ctx context.Context, s *flyt.SharedStore) ([]flyt.Result, error) {
				p.prep++
				return []flyt.Result{flyt.NewResult(1), flyt.NewResult(2)}, nil
			})
		}
		if c.He {
			b = b.WithExecFunc(execR)
		}
		if c.Hpo {
			b = b.WithPostFunc(func(ctx context.Context, s *flyt.SharedStore, a, x []flyt.Result) (flyt.Action, error) {
				p.post++
				p.postprep, p.postexec = "items", ""
				if len(a) == 0 {
					p.postprep = "empty"
				}
				if len(x) == 0 {
					p.postexec = "empty"
				}
				if len(a) != len(x) {
					p.postexec = "lengths differ"
				}
				for _, r := range x {
					k := dKind(r.Value())
					if r.IsError() {
						k = "err"
					}
					if p.postexec == "" {
						p.postexec = k
					} else if p.postexec != k {
						p.postexec = "mixed:" + p.postexec + "/" + k
					}
				}
				return "A", nil
			})
		}
		return b
	}
	fatal("unknown defaults kind %q", c.Kind)
	return nil
}

func runDefaultsCell(c dCell) Event {
	ev := Event{"ev": "defaults", "kind": c.Kind, "hp": c.Hp, "he": c.He, "hpo": c.Hpo, "hfb": c.Hfb, "fails": c.Fails, "pres": c.Pres, "xnil": c.Xnil,
		"prep": 0, "exec": 0, "fb": 0, "post": 0, "execarg": "none", "postprep": "none", "postexec": "none",
		"iserr": false, "errmatch": false, "action": "", "route": "none", "panicked": false}
	func() {
		defer func() {
			if r := recover(); r != nil {
				ev["panicked"] = true
				ev["panic"] = fmt.Sprint(r)
			}
		}()
		// on its own
		p := &dProbe{pres: c.Pres, xnil: c.Xnil, fails: c.Fails, errTok: errors.New("the attempt failed"), execarg: "none", postprep: "none", postexec: "none"}
		act, err := flyt.Run(context.Background(), buildDefaultsNode(c, p), flyt.NewSharedStore())
		ev["prep"], ev["exec"], ev["fb"], ev["post"] = p.prep, p.exec, p.fb, p.post
		ev["execarg"], ev["postprep"], ev["postexec"] = p.execarg, p.postprep, p.postexec
		ev["iserr"] = err != nil
		ev["errmatch"] = err != nil && errors.Is(err, p.errTok)
		switch act {
		case flyt.DefaultAction:
			ev["action"] = "default"
		default:
			ev["action"] = string(act)
		}
		// as the first step of a flow: which successor runs
		p2 := &dProbe{pres: c.Pres, xnil: c.Xnil, fails: c.Fails, errTok: errors.New("the attempt failed"), execarg: "none", postprep: "none", postexec: "none"}
		first := buildDefaultsNode(c, p2)
		route := "none"
		mk := func(name string) flyt.Node {
			return flyt.NewNode(flyt.WithExecFuncAny(func(ctx context.Context, a any) (any, error) { route = name; return nil, nil }))
		}
		f := flyt.NewFlow(first)
		f.Connect(first, flyt.DefaultAction, mk("default"))
		f.Connect(first, "A", mk("A"))
		_ = f.Run(context.Background(), flyt.NewSharedStore())
		ev["route"] = route
	}()
	return ev
}

func init() {
	families["defaults"] = func(o *Out, scnFile string, seed int64, count int, modes string, opts map[string]string) {
		id := 0
		for _, line := range readLines(scnFile) {
			c := dCell{Kind: asStr(line["kind"]), Hp: asBool(line["hp"]), He: asBool(line["he"]), Hpo: asBool(line["hpo"]), Hfb: asBool(line["hfb"]), Fails: asBool(line["fails"]), Pres: asBool(line["pres"]), Xnil: asBool(line["xnil"])}
			id++
			o.WriteScenario(id, "defaults", "tlc-cells", map[string]any{"kind": c.Kind}, nil, []Event{runDefaultsCell(c)})
		}
	}
}
