package main

// Batch family: scenario sources (TLC-exported behaviours, seeded random scenarios) and output.

import (
	"encoding/json"
	"fmt"
	"math/rand"
	"strings"
	"time"
)

func scriptToJSON(s *BatchScript) map[string]any {
	items := map[string]any{}
	for i, is := range s.Items {
		ex := []any{}
		for _, o := range is.Execs {
			ex = append(ex, map[string]any{"out": o.Out, "cancel": o.Cancel})
		}
		items[itoa(i)] = map[string]any{"execs": ex, "fb": map[string]any{"out": is.Fb.Out, "cancel": is.Fb.Cancel}}
	}
	rel := []any{}
	for _, r := range s.Release {
		rel = append(rel, []any{r.Item, r.K, r.Expect, r.Before, r.Settle})
	}
	return map[string]any{"prep": s.Prep, "items": items, "post": map[string]any{"out": s.Post.Out, "act": s.Post.Act, "cancel": s.Post.Cancel}, "release": rel}
}

func itoa(i int) string { b, _ := json.Marshal(i); return string(b) }

func scriptFromJSON(m map[string]any) *BatchScript {
	s := &BatchScript{Prep: asStr(m["prep"]), Items: map[int]*itemScript{}}
	for k, v := range asMap(m["items"]) {
		var i int
		json.Unmarshal([]byte(k), &i)
		im := asMap(v)
		is := &itemScript{}
		for _, e := range asList(im["execs"]) {
			em := asMap(e)
			is.Execs = append(is.Execs, Outcome{Out: asStr(em["out"]), Cancel: asBool(em["cancel"])})
		}
		fm := asMap(im["fb"])
		is.Fb = Outcome{Out: asStr(fm["out"]), Cancel: asBool(fm["cancel"])}
		s.Items[i] = is
	}
	pm := asMap(m["post"])
	s.Post = Outcome{Out: asStr(pm["out"]), Act: asInt(pm["act"]), Cancel: asBool(pm["cancel"])}
	for _, r := range asList(m["release"]) {
		l := asList(r)
		s.Release = append(s.Release, relStep{asInt(l[0]), asInt(l[1]), asInt(l[2]), asInt(l[3]), asBool(l[4])})
	}
	return s
}

var batchShapes = []string{"results", "results", "anys", "ptrs", "maps", "strings", "ints", "u8s"}

func genBatch(r *rand.Rand, mode string) (BatchCfg, *BatchScript) {
	c := BatchCfg{N: 1 + r.Intn(4), Items: r.Intn(13), C: r.Intn(6), Acts: []int{0, 1, 2, 6, 7, 8}, Outs: []string{"ok", "err"},
		Shape: batchShapes[r.Intn(len(batchShapes))], ExSty: []string{"r", "a"}[r.Intn(2)], Via: []string{"builder", "node", "builder", "flow"}[r.Intn(4)],
		Sched: []string{"random", "random", "free"}[r.Intn(3)], CtxKind: "cancel"}
	if r.Intn(6) == 0 {
		c.Items = 13 + r.Intn(52) // up to 64
		c.C = r.Intn(17)
	}
	c.StopMode = r.Intn(2) == 0
	c.ModeSet = r.Intn(2) == 0
	c.Fb = r.Intn(3) == 0
	pFail := []float64{0, 0.15, 0.4, 0.8}[r.Intn(4)]
	switch mode {
	case "continue":
		c.StopMode = false
	case "stop":
		c.StopMode = true
		if pFail == 0 {
			pFail = 0.2
		}
	case "cancel":
		c.Cancel = true
		c.CtxKind = []string{"cancel", "deadline", "cause"}[r.Intn(3)]
		c.Ctx0 = r.Intn(8) == 0
		if c.Items == 0 {
			c.Items = 1 + r.Intn(8)
		}
		if c.Via == "flow" {
			c.Via = "builder" // a cancelled flow legitimately stops after the batch node
		}
	case "barrier":
		c.Sched = "barrier"
		c.C = 1 + r.Intn(16)
		c.Items = c.C + r.Intn(3*c.C+8)
		pFail = 0
		c.Via = "builder"
		if c.C > 2 && r.Intn(3) == 0 {
			c.Procs = 2 // fewer processors than workers: the limit must still be fully usable
		}
		if r.Intn(2) == 0 {
			// any c items may depend on each other, not only the first c
			c.Barrier = r.Perm(c.Items)[:c.C]
			for i := range c.Barrier {
				c.Barrier[i]++
			}
		}
	}
	switch mode {
	case "continue", "stop", "single", "waves":
		c.After = r.Intn(3) == 0
	}
	switch mode {
	case "rerun": // the node object was used before with a higher concurrency level
		c.C = 1 + r.Intn(3)
		c.WarmC = c.C + 1 + r.Intn(4)
		c.Items = 2*c.WarmC + r.Intn(6)
		c.Sched = "random"
		c.Via = "builder"
		c.WarmN = 1 + r.Intn(4) // ... and with another retry budget
		pFail = 0
	case "erritems": // some items are error Results already when prep returns them; every item has a retry budget above one
		c.C = []int{0, 2, 3}[r.Intn(3)]
		c.Items = 3 + r.Intn(4)
		c.N, c.Fb, c.StopMode, c.Sched, c.Shape, c.ExSty = 2+r.Intn(2), false, false, "random", "results", "r"
		c.Via = []string{"builder", "node"}[r.Intn(2)]
		pFail = 0.3
	case "rerunstop": // the node object was used before with four workers; now one worker, stop on error, a slow failing first item
		c.C, c.WarmC, c.Items = 1, 4, 6+r.Intn(4)
		c.N, c.W, c.Fb, c.StopMode, c.Sched, c.Via, c.Shape = 1, 4, false, true, "hold", "builder", "results"
		pFail = 0
	case "rebudget": // the node object was used before with another retry budget
		c.C = r.Intn(3)
		c.Items = 2 + r.Intn(6)
		c.N = 1 + r.Intn(4)
		c.WarmN = 1 + (c.N+r.Intn(3))%4
		c.Sched = "random"
		c.Via = []string{"builder", "node"}[r.Intn(2)]
		pFail = 0.6
	case "waves": // items of a wave complete at the same instant, with different outcomes
		c.C = 2 + r.Intn(7)
		c.Items = c.C * (2 + r.Intn(4))
		c.N = 1 + r.Intn(2)
		c.Sched, c.Via, c.StopMode = "wave", "builder", false
		pFail = 0.5
	case "stoprace": // one worker, very short items, item 3 fails: the stop decision must be taken before the worker moves on
		c.C, c.Items = 1, 8
		c.N, c.Fb, c.StopMode, c.Sched, c.Via, c.Shape = 1, false, true, "free0", "builder", "results"
		pFail = 0
	case "cancelfeed": // the context is cancelled while the feeding loop is still submitting and an earlier item is in flight
		c.C = 2 + r.Intn(2)
		c.Items = 3*c.C + 3
		c.N, c.W, c.Fb, c.StopMode, c.Sched, c.Via, c.Shape = 1, 0, false, r.Intn(2) == 0, "cancelfeed", "builder", "results"
		c.Cancel, c.CtxKind = true, []string{"cancel", "cause", "deadline"}[r.Intn(3)]
		pFail = 0
	case "innerflow": // every exec call runs a small flow of its own first; several of them at the same time
		c.C = 2 + r.Intn(3)
		c.Items = c.C + r.Intn(6)
		c.N, c.StopMode, c.Sched, c.Via, c.Inner = 1+r.Intn(2), false, "free", "builder", true
		pFail = 0.3
	case "fbhold": // the fallback of a failing item is still running while the other items are processed by the other workers
		c.C = 2 + r.Intn(2)
		c.Items = c.C + 1 + r.Intn(4)
		c.N, c.W, c.Fb, c.StopMode, c.Sched, c.Via, c.Shape = 1+r.Intn(2), 0, true, false, "fbhold", "builder", "results"
		pFail = 0
	case "waitcancel": // an item waits between two attempts while another item's exec cancels the context
		c.C, c.Items = 2, 2
		c.N, c.W, c.Fb, c.StopMode, c.Sched, c.Via, c.Shape = 2, 40, false, false, "waitcancel", "builder", "results"
		c.Cancel, c.CtxKind = true, []string{"cancel", "cause"}[r.Intn(2)]
		pFail = 0
	case "deadlinewait": // a real deadline that expires while the first item waits (one second) for its second attempt
		c.C = []int{0, 2}[r.Intn(2)]
		c.Items = 3
		c.N, c.W, c.Fb, c.StopMode, c.Sched, c.Via, c.Shape = 2, 1000, false, r.Intn(2) == 0, "free0", "builder", "results"
		c.Cancel, c.CtxKind = true, "timeout"
		pFail = 0
	case "onestop": // one worker (or none), stop mode, exactly one item fails for good: nothing positioned behind it may run
		c.C = r.Intn(2)
		c.Items = 4 + r.Intn(13)
		c.N, c.Fb, c.StopMode, c.Sched, c.Via, c.Shape = 1, false, true, []string{"random", "free"}[r.Intn(2)], "builder", "results"
		pFail = 0
	case "bigstop": // stop mode, a long queue behind the failing item, an in-flight item succeeding right after the failure
		c.C = 2 + r.Intn(3)
		c.Items = 1500
		c.N, c.Fb, c.StopMode, c.Sched, c.Via, c.Shape = 1, false, true, "bigstop", "builder", "results"
		pFail = 0
	case "longbatch": // more than a thousand short items on one or two workers: whatever a worker does "every so many tasks"
		c.C = 1 + r.Intn(2)
		c.Items = 1100 + r.Intn(40)
		c.N, c.Fb, c.StopMode, c.Sched, c.Via, c.Shape = 1, false, false, "free", "builder", "results"
		pFail = 0
	case "bigcancel": // a batch of more items than any small chunk or inline table holds, cancelled from inside one item
		c.C = []int{1, 2, 4}[r.Intn(3)]
		c.Items = []int{80, 128, 200, 65}[r.Intn(4)]
		c.N, c.Fb, c.StopMode, c.Sched, c.Via, c.Shape = 1, false, r.Intn(3) == 0, "free0", "builder", "results"
		c.Cancel, c.CtxKind = true, []string{"cancel", "cause", "deadline"}[r.Intn(3)]
		pFail = 0
	case "storm": // many always-failing items on many workers: per-item state must not be shared
		c.Items, c.C, c.N, c.Sched, c.Via = 64, 8, 2, "tight", "builder"
		c.Fb = r.Intn(2) == 0
		c.StopMode = false
		pFail = 1
	case "single":
		c.Shape = []string{"single", "singlenilptr"}[r.Intn(2)]
		c.Items = 1
	case "empty":
		c.Items = 0
		if r.Intn(2) == 0 {
			c.Shape = "nil"
		}
	case "wait":
		c.W = 1 + r.Intn(3)
		c.N = 2 + r.Intn(2)
	case "backoff": // items that wait between two attempts while their neighbours are busy and others are queued
		c.C = 1 + r.Intn(3)
		c.Items = 3*c.C + 2 + r.Intn(3)
		c.W = 4 + r.Intn(3)
		c.N = 2
		c.Sched, c.Via, c.StopMode = "hold", "builder", false
		pFail = 0.5
	}
	if c.Shape == "single" || c.Shape == "singlenilptr" {
		c.Items = 1
	}
	if c.Shape == "nil" {
		c.Items = 0
	}
	s := &BatchScript{Prep: "ok", Items: map[int]*itemScript{}, Post: Outcome{Out: "ok", Act: c.Acts[r.Intn(len(c.Acts))]}}
	if r.Intn(25) == 0 {
		s.Prep = "err"
	}
	if r.Intn(25) == 0 || ((mode == "empty" || mode == "single") && r.Intn(5) == 0) {
		s.Post = Outcome{Out: "err"}
		c.PostBE = r.Intn(2) == 0
	}
	for i := 1; i <= c.Items; i++ {
		is := &itemScript{}
		for k := 1; k <= c.N+1; k++ {
			o := Outcome{Out: "ok"}
			if r.Float64() < pFail {
				o.Out = "err"
			} else if c.ExSty == "r" && r.Intn(12) == 0 {
				o.Out = "eres" // an error Result with a nil error
			} else if r.Intn(8) == 0 {
				o.Out = "nil" // success with a nil value
			}
			is.Execs = append(is.Execs, o)
		}
		is.Fb = Outcome{Out: "ok"}
		if r.Intn(2) == 0 {
			is.Fb.Out = "err"
		}
		s.Items[i] = is
	}
	if mode == "bigstop" || mode == "rerunstop" {
		s.Items[1].Execs[0].Out = "err"
	}
	if mode == "bigcancel" {
		s.Items[2+r.Intn(c.Items/8)].Execs[0].Cancel = true // an early item cancels: most of the batch is still ahead
	}
	if mode == "stoprace" {
		s.Items[3].Execs[0].Out = "err"
	}
	if mode == "deadlinewait" {
		s.Items[1].Execs[0].Out = "err"
	}
	if mode == "cancelfeed" {
		s.Items[2].Execs[0].Cancel = true // item 2 cancels at once; item 1 is still busy (30 ms) and ignores the context
	}
	if mode == "fbhold" {
		for k := range s.Items[1].Execs {
			s.Items[1].Execs[k].Out = "err" // item 1 fails for good; its fallback succeeds, after all the others are done
		}
	}
	if mode == "waitcancel" {
		s.Items[1].Execs[0].Out = "err"   // item 1 fails at once and waits 40 ms for its second attempt
		s.Items[2].Execs[0].Cancel = true // item 2 cancels 10 ms into its exec, then returns
	}
	if mode == "onestop" {
		s.Items[1+r.Intn(c.Items-1)].Execs[0].Out = "err"
	}
	if (mode == "continue" || mode == "stop" || mode == "rebudget") && c.Shape == "results" && c.WarmN == 0 && r.Intn(3) == 0 {
		c.PrepN = true
	}
	if (mode == "continue" || mode == "barrier") && c.Shape == "results" && c.WarmC == 0 && r.Intn(3) == 0 {
		c.PrepC = true
	}
	if mode == "rebudget" && r.Intn(2) == 0 {
		c.WarmN, c.PrepN = 0, c.Shape == "results"
	}
	if (mode == "continue" || mode == "stop") && c.Shape == "results" && c.Items > 1 && r.Intn(4) == 0 {
		c.NilItem = 1 + r.Intn(c.Items)
	}
	if mode == "erritems" {
		for i := 1; i <= c.Items; i++ {
			if r.Intn(3) == 0 || (i == c.Items && len(c.ErrItems) == 0) {
				c.ErrItems = append(c.ErrItems, i)
			}
		}
	}
	if (mode == "continue" || mode == "stop") && c.Shape == "results" && c.ExSty == "r" && !c.Fb && c.Items > 0 && c.NilItem == 0 && r.Intn(2) == 0 {
		// some items are error Results already when prep returns them
		for i := 1; i <= c.Items; i++ {
			if r.Intn(4) == 0 {
				c.ErrItems = append(c.ErrItems, i)
			}
		}
	}
	if mode == "cancel" && !c.Ctx0 && c.Items > 0 {
		// one exec call (or the fallback) cancels the context
		i := 1 + r.Intn(c.Items)
		k := r.Intn(len(s.Items[i].Execs))
		s.Items[i].Execs[k].Cancel = true
		for j := 0; j < k; j++ {
			s.Items[i].Execs[j].Out = "err" // make sure attempt k+1 is reached (if the budget allows)
		}
	}
	return c, s
}

func init() {
	families["batch"] = func(o *Out, scnFile string, seed int64, count int, modes string, opts map[string]string) {
		id := 0
		if ms := opts["settle"]; ms != "" {
			var v int
			fmt.Sscanf(ms, "%d", &v)
			batchSettle = time.Duration(v) * time.Millisecond
		}
		maxScn := 0
		if ms := opts["maxscn"]; ms != "" {
			fmt.Sscanf(ms, "%d", &maxScn)
		}
		emit := func(cfg BatchCfg, src string, sc *BatchScript, exp []any, evs []Event) {
			id++
			cj := cfg.toJSON()
			cj["script"] = scriptToJSON(sc)
			o.WriteScenario(id, "batch", src, cj, exp, evs)
		}
		if rp := opts["replay"]; rp != "" {
			for _, line := range readLines(rp) {
				cm := asMap(line["cfg"])
				cfg := parseBatchCfg(cm)
				if asStr(line["fam"]) == "batchdup" {
					o.WriteScenario(asInt(line["scn"]), "batchdup", asStr(line["src"]), cfg.toJSON(), nil, runBatchDup(cfg))
					continue
				}
				sc := scriptFromJSON(asMap(cm["script"]))
				var exp []any
				if asStr(line["src"]) == "tlc" {
					exp = asList(line["exp"])
				}
				evs := runBatchScenario(cfg, sc, seed)
				cj := cfg.toJSON()
				cj["script"] = scriptToJSON(sc)
				o.WriteScenario(asInt(line["scn"]), "batch", asStr(line["src"]), cj, exp, evs)
			}
			return
		}
		if scnFile != "" {
			vi := 0
			lines := readLines(scnFile)
			step := 1
			if maxScn > 0 && len(lines) > maxScn {
				step = len(lines)/maxScn + 1
			}
			for li, line := range lines {
				if (li+int(seed))%step != 0 {
					continue
				}
				base := parseBatchCfg(asMap(line["cfg"]))
				if opts["only"] == "continue" && base.StopMode {
					continue // the property under check speaks about continue-on-error batches only
				}
				exp := asList(line["h"])
				sc := batchScriptFromHistory(exp)
				// two concrete variants per behaviour: exec style, prep payload shape, dispatch path
				for v := 0; v < 2; v++ {
					cfg := base
					vi++
					cfg.ExSty = []string{"r", "a"}[(vi+v)%2]
					for _, o := range base.Outs {
						if o == "eres" {
							cfg.ExSty = "r"
						}
					}
					cfg.Shape = []string{"results", "anys", "results", "ptrs", "maps", "strings", "ints"}[(vi+3*v)%7]
					cfg.Via = []string{"builder", "node"}[(vi/2+v)%2]
					if cfg.Cancel || cfg.Ctx0 {
						cfg.CtxKind = []string{"cancel", "deadline", "cause"}[(vi+v)%3]
					}
					cfg.Sched = "script"
					if tooManyHangs() {
						break
					}
					evs := runBatchScenario(cfg, sc, seed)
					noteHang(evs)
					emit(cfg, "tlc", sc, exp, evs)
				}
			}
		}
		for mi, mode := range strings.Split(modes, ",") {
			if mode == "" || count == 0 {
				continue
			}
			if mode == "dup" {
				// batches whose items are all equal to each other (the same int, string, pointer ...): n items all the same
				for _, k := range []string{"int", "string", "nil", "ptr", "empty", "slice", "errres"} {
					for _, cc := range []int{0, 1, 3} {
						for _, n := range []int{2, 5} {
							cfg := BatchCfg{Items: n, C: cc, N: 1, Shape: "results", ExSty: "r", Via: "builder", Sched: "free0", CtxKind: "cancel", DupKind: k, StopMode: (n+cc)%2 == 1}
							id++
							o.WriteScenario(id, "batchdup", "gen:dup", cfg.toJSON(), nil, runBatchDup(cfg))
						}
					}
				}
				continue
			}
			r := rand.New(rand.NewSource(seed*7919 + int64(mi)))
			n := count
			if mode == "erritems" {
				n = 10
				if count > 500 {
					n = 120
				}
			}
			if mode == "rerunstop" {
				n = 6
				if count > 500 {
					n = 40
				}
			}
			if mode == "longbatch" || mode == "bigcancel" {
				n = 4
				if count > 500 {
					n = 24
				}
			}
			if mode == "bigstop" { // large scenarios: a handful is enough
				n = 6
				if bc := opts["bigcount"]; bc != "" {
					fmt.Sscanf(bc, "%d", &n)
				}
			}
			if mode == "stoprace" { // tiny scenarios, a window of nanoseconds: many rounds
				n = 600
				if count > 500 {
					n = 6000
				}
			}
			if mode == "deadlinewait" { // 150 ms each
				n = 4
				if count > 500 {
					n = 12
				}
			}
			if mode == "cancelfeed" { // 30 ms each
				n = 6
				if count > 500 {
					n = 30
				}
			}
			if mode == "fbhold" {
				n = 8
				if count > 500 {
					n = 60
				}
			}
			if mode == "waitcancel" { // 50 ms each
				n = 6
				if count > 500 {
					n = 30
				}
			}
			if mode == "storm" { // cheap, and the race windows it aims at are nanoseconds wide: many rounds
				n = 300
				if count > 500 {
					n = 2000
				}
			}
			for i := 0; i < n; i++ {
				if tooManyHangs() {
					break
				}
				cfg, sc := genBatch(r, mode)
				evs := runBatchScenario(cfg, sc, r.Int63())
				noteHang(evs)
				emit(cfg, "gen:"+mode, sc, nil, evs)
			}
		}
	}
}
