package main

// Batch family: flyt.Run on batch nodes, sequential and concurrent.
//
// Every exec call logs its entry, parks on a gate, and logs its exit when the
// controller releases it, so the completion order (and the point at which a
// callback cancels the context) is chosen by the scenario, not by the Go
// scheduler.  The worker is identified by the goroutine id of the caller.

import (
	"context"
	"errors"
	"fmt"
	"math/rand"
	"os"
	"runtime"
	"runtime/debug"
	"strconv"
	"strings"
	"sync"
	"sync/atomic"
	"time"

	"github.com/mark3labs/flyt"
)

type BatchCfg struct {
	N        int // retry budget
	Items    int // n
	C        int
	StopMode bool
	W        int // wait in ms
	Fb       bool
	Ctx0     bool
	Cancel   bool
	Acts     []int
	Outs     []string
	PrepErr  bool
	PostErr  bool
	Gated    bool
	Strict   bool
	// harness-only
	Shape    string // prep payload shape: results | anys | ptrs | maps | strings | ints | single | nil
	ExSty    string // exec style r | a
	Via      string // builder | node | flow
	Sched    string // "script" (follow release order), "random", "free", "barrier"
	CtxKind  string
	GenSeed  string
	ModeSet  bool   // error-handling mode was set explicitly
	Barrier  []int  // barrier schedule: the items (1-based) that wait for each other; all others return at once
	ErrItems []int  // items (1-based) that prep hands over as error Results (they are items like any other)
	After    bool   // the same node object performs another run afterwards; the lists handed to post are looked at again
	WarmC    int    // > 0: the same node object first performs a run with this concurrency, then is reconfigured
	WarmN    int    // > 0: ... and with this retry budget
	PrepN    bool   // the node is constructed with another retry budget; its own prep callback sets the real one
	PrepC    bool   // ... with another concurrency level
	Inner    bool   // every exec call first runs a small flow of its own on a store of its own (a batch of sub-flows)
	DupKind  string // "" or: all items carry the same value of this kind (scenario of counted facts, family batchdup)
	PostBE   bool   // post fails with an empty *flyt.BatchError (the library's own aggregate type) as its error value
	NilItem  int    // > 0: this item is a Result holding nil (it is processed like any other item)
	Procs    int    // > 0: run the scenario with GOMAXPROCS limited to this value
}

func parseBatchCfg(m map[string]any) BatchCfg {
	c := BatchCfg{N: asInt(m["N"]), Items: asInt(m["n"]), C: asInt(m["c"]), StopMode: asBool(m["stopmode"]), W: asInt(m["w"]),
		Fb: asBool(m["fb"]), Ctx0: asBool(m["ctx0"]), Cancel: asBool(m["cancel"]), PrepErr: asBool(m["preperr"]),
		PostErr: asBool(m["posterr"]), Gated: asBool(m["gated"]), Strict: asBool(m["strict"]),
		Shape: asStr(m["shape"]), ExSty: asStr(m["exsty"]), Via: asStr(m["via"]), Sched: asStr(m["sched"]),
		CtxKind: asStr(m["ctxkind"]), GenSeed: asStr(m["genseed"]), WarmC: asInt(m["warmc"]), Procs: asInt(m["procs"]), After: asBool(m["after"]), WarmN: asInt(m["warmn"]),
		PrepN: asBool(m["prepn"]), NilItem: asInt(m["nilitem"]), PrepC: asBool(m["prepc"]), PostBE: asBool(m["postbe"]), DupKind: asStr(m["dupkind"]), Inner: asBool(m["inner"])}
	for _, a := range asList(m["barrier"]) {
		c.Barrier = append(c.Barrier, asInt(a))
	}
	for _, a := range asList(m["erritems"]) {
		c.ErrItems = append(c.ErrItems, asInt(a))
	}
	for _, a := range asList(m["acts"]) {
		c.Acts = append(c.Acts, asInt(a))
	}
	for _, a := range asList(m["outs"]) {
		c.Outs = append(c.Outs, asStr(a))
	}
	if c.Shape == "" {
		c.Shape = "results"
	}
	if c.ExSty == "" {
		c.ExSty = "r"
	}
	if c.Via == "" {
		c.Via = "builder"
	}
	if c.Sched == "" {
		c.Sched = "script"
	}
	if c.CtxKind == "" {
		c.CtxKind = "cancel"
	}
	return c
}

func (c BatchCfg) toJSON() map[string]any {
	acts := []any{}
	for _, a := range c.Acts {
		acts = append(acts, a)
	}
	outs := []any{}
	for _, a := range c.Outs {
		outs = append(outs, a)
	}
	bar := []any{}
	for _, a := range c.Barrier {
		bar = append(bar, a)
	}
	eit := []any{}
	for _, a := range c.ErrItems {
		eit = append(eit, a)
	}
	return map[string]any{"N": c.N, "n": c.Items, "c": c.C, "stopmode": c.StopMode, "w": c.W, "fb": c.Fb, "ctx0": c.Ctx0,
		"cancel": c.Cancel, "acts": acts, "outs": outs, "preperr": c.PrepErr, "posterr": c.PostErr, "gated": c.Gated,
		"strict": c.Strict, "shape": c.Shape, "exsty": c.ExSty, "via": c.Via, "sched": c.Sched, "ctxkind": c.CtxKind, "genseed": c.GenSeed,
		"barrier": bar, "warmc": c.WarmC, "erritems": eit, "procs": c.Procs, "after": c.After, "warmn": c.WarmN, "prepn": c.PrepN, "nilitem": c.NilItem, "prepc": c.PrepC, "postbe": c.PostBE, "dupkind": c.DupKind, "inner": c.Inner}
}

// ---- script ----------------------------------------------------------------

type itemScript struct {
	Execs []Outcome // per attempt (1-based index k-1); beyond: fail
	Fb    Outcome
}

type relStep struct {
	Item, K int
	Expect  int  // number of exec calls parked when this one is released
	Before  int  // number of item events (execin/execout/fb) logged before this release
	Settle  bool // unobservable internal steps (stop flag, skips) must have settled before this release
}

type BatchScript struct {
	Prep    string // ok | err
	Items   map[int]*itemScript
	Post    Outcome
	Release []relStep
}

func (b *BatchScript) exec(item, k int) Outcome {
	is := b.Items[item]
	if is == nil || k-1 >= len(is.Execs) {
		return Outcome{Out: "err"}
	}
	return is.Execs[k-1]
}
func (b *BatchScript) fb(item int) Outcome {
	is := b.Items[item]
	if is == nil || is.Fb.Out == "" {
		return Outcome{Out: "err"}
	}
	return is.Fb
}

func batchScriptFromHistory(h []any) *BatchScript {
	s := &BatchScript{Prep: "ok", Items: map[int]*itemScript{}, Post: Outcome{Out: "ok", Act: 1}}
	inflight := 0
	itemEvents := 0
	disturbed := false // a pipeline has failed or the context was cancelled: workers may skip items silently
	get := func(i int) *itemScript {
		if s.Items[i] == nil {
			s.Items[i] = &itemScript{}
		}
		return s.Items[i]
	}
	for _, ev := range h {
		e := asMap(ev)
		switch asStr(e["ev"]) {
		case "bprep":
			s.Prep = asStr(e["out"])
		case "execin":
			inflight++
			itemEvents++
		case "execout":
			it := get(asInt(e["item"]))
			k := asInt(e["k"])
			for len(it.Execs) < k {
				it.Execs = append(it.Execs, Outcome{Out: "err"})
			}
			it.Execs[k-1] = Outcome{Out: asStr(e["out"]), Cancel: asBool(e["cancel"])}
			s.Release = append(s.Release, relStep{Item: asInt(e["item"]), K: k, Expect: inflight, Before: itemEvents, Settle: disturbed})
			inflight--
			itemEvents++
			if asStr(e["out"]) == "err" || asBool(e["cancel"]) {
				disturbed = true
			}
		case "fb":
			itemEvents++
			if asBool(e["cancel"]) {
				disturbed = true
			}
			get(asInt(e["item"])).Fb = Outcome{Out: asStr(e["out"]), Cancel: asBool(e["cancel"])}
		case "bpost":
			s.Post = Outcome{Out: asStr(e["out"]), Act: asInt(e["act"]), Cancel: asBool(e["cancel"])}
		}
	}
	return s
}

// ---- tokens (same minting scheme as FlytBatch.tla) ------------------------------

func itemTok(i int) int   { return 1000 * i }
func valTok(i, k int) int { return 1000*i + k }
func errTok(i, k int) int { return 1000*i + 100 + k }
func fbValTok(i int) int  { return 1000*i + 500 }
func fbErrTok(i int) int  { return 1000*i + 600 }

const prepErrTok = 7
const postErrTok = 8

// ---- goroutine ids -----------------------------------------------------------

func goid() int64 {
	var buf [64]byte
	n := runtime.Stack(buf[:], false)
	f := strings.Fields(string(buf[:n]))
	if len(f) < 2 {
		return -1
	}
	id, _ := strconv.ParseInt(f[1], 10, 64)
	return id
}

// ---- one batch run -------------------------------------------------------------

type parkedCall struct {
	item, k int
	ch      chan struct{}
}

type batchRun struct {
	cfg         BatchCfg
	sc          *BatchScript
	reg         *Registry
	store       *flyt.SharedStore
	mu          sync.Mutex
	events      []Event
	gids        map[int64]int
	att         map[int]int // item -> attempts so far
	parked      []*parkedCall
	nItemEv     int           // execin/execout/fb events logged so far
	settle      time.Duration // pause that lets unobservable internal steps finish before a release
	parkCh      chan struct{} // signalled whenever the parked set changes
	cancel      func()
	done        chan struct{}
	rng         *rand.Rand
	barrier     chan struct{}
	inBarrier   map[int]bool
	warm        bool          // the warm-up run is in progress: callbacks do not log
	keptItems   []flyt.Result // the very slices post was handed (a caller may keep them)
	keptResults []flyt.Result
	barrierN    int
	barrierOnce sync.Once
	stuck       bool
}

func (b *batchRun) log(e Event) {
	if b.warm {
		return
	}
	b.mu.Lock()
	b.events = append(b.events, e)
	switch e["ev"] {
	case "execout", "fb":
		b.nItemEv++
	}
	b.mu.Unlock()
	select {
	case b.parkCh <- struct{}{}:
	default:
	}
}

func (b *batchRun) gidLocked() int {
	id := goid()
	if g, ok := b.gids[id]; ok {
		return g
	}
	g := len(b.gids)
	b.gids[id] = g
	return g
}

func (b *batchRun) itemOf(v any) (int, int, bool) {
	tok, same := b.reg.Observe(v)
	if tok <= 0 || tok%1000 != 0 {
		return -1, tok, false
	}
	return tok / 1000, tok, same
}

// the user's exec function (common part): entry event, gate, exit event
// exec returns (value, error carried by an error Result, Go error)
func (b *batchRun) exec(arg Obs) (any, error, error) {
	if b.warm {
		return nil, nil, nil
	}
	item := -1
	if arg.Tok > 0 && arg.Tok%1000 == 0 {
		item = arg.Tok / 1000
	}
	if arg.Tok == 0 && !arg.IsErr && b.cfg.NilItem > 0 {
		// the item that holds nil: exec receives it like any other item
		item = b.cfg.NilItem
		arg = Obs{Tok: itemTok(item), Same: true, Wrap: arg.Wrap}
	}
	if arg.IsErr && arg.ErrTok > 0 && arg.ErrTok%1000 == 0 && b.isErrItem(arg.ErrTok/1000) {
		// the item is an error Result produced by prep: exec receives it like any other item
		item = arg.ErrTok / 1000
		arg = Obs{Tok: arg.ErrTok, Same: true, Wrap: "raw"}
	}
	b.mu.Lock()
	g := b.gidLocked()
	b.att[item]++
	k := b.att[item]
	b.events = append(b.events, Event{"ev": "execin", "item": item, "k": k, "arg": arg.Tok, "aid": arg.Same && arg.Wrap == "raw" && !arg.IsErr, "gid": g})
	b.nItemEv++
	var pc *parkedCall
	if b.cfg.Sched == "script" || b.cfg.Sched == "random" || b.cfg.Sched == "wave" {
		pc = &parkedCall{item: item, k: k, ch: make(chan struct{})}
		b.parked = append(b.parked, pc)
	}
	b.mu.Unlock()
	select {
	case b.parkCh <- struct{}{}:
	default:
	}
	switch {
	case pc != nil:
		select {
		case <-pc.ch:
		case <-time.After(8 * time.Second):
			b.mu.Lock()
			b.stuck = true
			b.mu.Unlock()
		}
	case b.cfg.Sched == "barrier" && b.inBarrier[item] && k == 1:
		// c mutually dependent items wait for each other: all c must get in flight at once
		b.mu.Lock()
		arrived := 0
		for _, e := range b.events {
			if e["ev"] == "execin" && e["k"] == 1 && b.inBarrier[e["item"].(int)] {
				arrived++
			}
		}
		if arrived >= b.barrierN {
			b.barrierOnce.Do(func() { close(b.barrier) })
		}
		b.mu.Unlock()
		select {
		case <-b.barrier:
		case <-time.After(3 * time.Second):
			b.mu.Lock()
			b.stuck = true
			b.mu.Unlock()
			b.barrierOnce.Do(func() { close(b.barrier) })
		}
	case b.cfg.Sched == "bigstop":
		if item == 1 {
			b.barrierOnce.Do(func() { close(b.barrier) }) // the failure is about to be returned
		} else if item <= b.cfg.C {
			select {
			case <-b.barrier:
			case <-time.After(2 * time.Second):
			}
			time.Sleep(150 * time.Microsecond) // ... and an in-flight item succeeds shortly afterwards
		}
	case b.cfg.Sched == "free0":
		// no pause at all
	case b.cfg.Sched == "cancelfeed":
		if item != 2 {
			time.Sleep(30 * time.Millisecond) // busy, not watching the context
		}
	case b.cfg.Sched == "waitcancel":
		if item == 2 {
			time.Sleep(10 * time.Millisecond) // item 1 is waiting between its attempts by now
		}
	case b.cfg.Sched == "hold":
		// every attempt takes three times the retry wait: an item that is waiting between two attempts finds
		// its neighbours still busy when the wait is over
		time.Sleep(time.Duration(3*b.cfg.W) * time.Millisecond)
	case b.cfg.Sched == "free":
		// unsynchronised: a short random pause to shuffle completion orders
		b.mu.Lock()
		d := time.Duration(b.rng.Intn(300)) * time.Microsecond
		b.mu.Unlock()
		time.Sleep(d)
	}
	o := b.sc.exec(item, k)
	ev := Event{"ev": "execout", "item": item, "k": k, "out": o.Out, "val": 0, "err": 0, "cancel": o.Cancel, "gid": g}
	if o.Cancel {
		b.cancel()
	}
	if o.Out == "ok" {
		ev["val"] = valTok(item, k)
		b.log(ev)
		return b.reg.Payload(valTok(item, k)), nil, nil
	}
	if o.Out == "nil" {
		// a successful attempt whose value is nil: an outcome like any other
		b.log(ev)
		return nil, nil, nil
	}
	ev["err"] = errTok(item, k)
	b.log(ev)
	if o.Out == "eres" {
		return nil, b.reg.Err(errTok(item, k)), nil
	}
	return nil, nil, b.reg.Err(errTok(item, k))
}

func (b *batchRun) fallback(prep any, err error) (any, error) {
	arg := b.reg.ObserveAny(prep)
	item := -1
	if arg.Tok > 0 && arg.Tok%1000 == 0 {
		item = arg.Tok / 1000
	}
	if arg.Tok == 0 && !arg.IsErr && b.cfg.NilItem > 0 {
		item = b.cfg.NilItem
		arg = Obs{Tok: itemTok(item), Same: true, Wrap: arg.Wrap}
	}
	o := b.sc.fb(item)
	seen := []any{}
	for _, x := range b.reg.MatchAll(err) {
		if x/1000 == item { // only this item's attempt errors are of interest here
			seen = append(seen, x)
		}
	}
	b.mu.Lock()
	g := b.gidLocked()
	b.mu.Unlock()
	stalled := false
	if b.cfg.Sched == "fbhold" && !b.warm {
		// this fallback takes as long as the other items need: they are other workers' business and must all get done meanwhile
		deadline := time.Now().Add(4 * time.Second)
		for {
			b.mu.Lock()
			done := map[int]bool{}
			for _, e := range b.events {
				if e["ev"] == "execout" && e["out"] != "err" {
					done[e["item"].(int)] = true
				}
			}
			b.mu.Unlock()
			if len(done) >= b.cfg.Items-1 {
				break
			}
			if time.Now().After(deadline) {
				stalled = true
				break
			}
			time.Sleep(200 * time.Microsecond)
		}
	}
	// inside a batch the fallback receives the item Result itself as its "prep value"
	ev := Event{"ev": "fb", "item": item, "arg": arg.Tok, "aid": arg.Same && !arg.IsErr, "errseen": seen, "out": o.Out, "val": 0, "err": 0, "cancel": o.Cancel, "gid": g}
	if b.cfg.Sched == "fbhold" {
		ev["stalled"] = stalled
	}
	if o.Cancel {
		b.cancel()
	}
	if o.Out == "ok" {
		ev["val"] = fbValTok(item)
		b.log(ev)
		return b.reg.Payload(fbValTok(item)), nil
	}
	ev["err"] = fbErrTok(item)
	b.log(ev)
	return nil, b.reg.Err(fbErrTok(item))
}

func (b *batchRun) isErrItem(i int) bool {
	for _, x := range b.cfg.ErrItems {
		if x == i {
			return true
		}
	}
	return false
}

func (b *batchRun) itemTokens() []any {
	l := []any{}
	for i := 1; i <= b.cfg.Items; i++ {
		l = append(l, itemTok(i))
	}
	return l
}

func (b *batchRun) prepEvent(shared *flyt.SharedStore) (Event, bool) {
	ok := b.sc.Prep == "ok" || b.warm
	ev := Event{"ev": "bprep", "sok": shared == b.store, "out": b.sc.Prep, "n": 0, "items": []any{}, "err": 0}
	if ok {
		ev["n"] = b.cfg.Items
		ev["items"] = b.itemTokens()
	} else {
		ev["err"] = prepErrTok
	}
	return ev, ok
}

func (b *batchRun) post(shared *flyt.SharedStore, items, results []flyt.Result) (flyt.Action, error) {
	if b.warm {
		return flyt.DefaultAction, nil
	}
	o := b.sc.Post
	b.keptItems, b.keptResults = items, results
	its, slots := b.observeLists(items, results)
	ev := Event{"ev": "bpost", "sok": shared == b.store, "items": its, "slots": slots, "out": o.Out, "act": 0, "err": 0, "cancel": o.Cancel}
	if o.Cancel {
		b.cancel()
	}
	if o.Out == "ok" {
		ev["act"] = o.Act
		b.log(ev)
		return actName(o.Act), nil
	}
	ev["err"] = postErrTok
	b.log(ev)
	return "", b.reg.Err(postErrTok)
}

// observeLists: what the item list and the result list look like right now
func (b *batchRun) observeLists(items, results []flyt.Result) ([]any, []any) {
	its := []any{}
	for i, r := range items {
		ob := b.reg.ObserveResult(r)
		if ob.IsErr && ob.ErrTok > 0 {
			its = append(its, ob.ErrTok)
		} else if ob.Tok == 0 && !ob.IsErr && b.cfg.NilItem == i+1 {
			its = append(its, itemTok(i+1)) // the item that holds nil, in its place
		} else {
			its = append(its, ob.Tok)
		}
	}
	slots := []any{}
	for _, r := range results {
		s := map[string]any{"iserr": r.IsError(), "tok": 0, "errs": []any{}}
		if r.IsError() {
			errs := []any{}
			for _, x := range b.reg.MatchAll(r.Error()) {
				errs = append(errs, x)
			}
			s["errs"] = errs
		} else {
			ob := b.reg.ObserveResult(r)
			s["tok"] = ob.Tok
		}
		slots = append(slots, s)
	}
	return its, slots
}

// typed payloads for the non-[]Result prep shapes
func (b *batchRun) prepValue() any {
	n := b.cfg.Items
	switch b.cfg.Shape {
	case "anys":
		l := make([]any, n)
		for i := range l {
			l[i] = b.reg.Payload(itemTok(i + 1))
		}
		return l
	case "ptrs":
		l := make([]*payloadPtr, n)
		for i := range l {
			l[i] = &payloadPtr{Tok: itemTok(i + 1)}
			b.reg.SetPayload(itemTok(i+1), l[i])
		}
		return l
	case "maps":
		l := make([]map[string]any, n)
		for i := range l {
			l[i] = map[string]any{"tok": itemTok(i + 1)}
			b.reg.SetPayload(itemTok(i+1), l[i])
		}
		return l
	case "strings":
		l := make([]string, n)
		for i := range l {
			l[i] = fmt.Sprintf("tok:%d", itemTok(i+1))
			b.reg.SetPayload(itemTok(i+1), l[i])
		}
		return l
	case "u8s":
		l := make([]prio, n)
		for i := range l {
			l[i] = prio(i + 1)
			b.reg.SetPayload(itemTok(i+1), l[i])
		}
		return l
	case "ints":
		l := make([]int, n)
		for i := range l {
			l[i] = itemTok(i + 1)
			b.reg.SetPayload(itemTok(i+1), l[i])
		}
		return l
	case "single":
		v := payloadVal{Tok: itemTok(1), Note: "single"}
		b.reg.SetPayload(itemTok(1), v)
		return v
	case "singlenilptr": // a single value that is a typed nil pointer is still one item
		var v *payloadPtr
		b.reg.SetPayload(itemTok(1), v)
		return v
	case "nil":
		return nil
	}
	return nil
}

func (b *batchRun) build() *flyt.BatchNodeBuilder {
	cfg := b.cfg
	var bn *flyt.BatchNodeBuilder
	if !cfg.StopMode && cfg.ModeSet {
		// the node was in stop mode once (constructor option) and is switched back through the builder
		bn = flyt.NewBatchNode(flyt.WithBatchErrorHandling(false))
	} else {
		bn = flyt.NewBatchNode()
	}
	needCustom := cfg.Fb || cfg.Shape != "results"
	if needCustom {
		// a fallback and the non-[]Result prep shapes are reachable only through the exported embedded CustomNode
		var opts []any
		if cfg.Fb {
			opts = append(opts, flyt.WithExecFallbackFunc(b.fallback))
		}
		if cfg.Shape != "results" {
			opts = append(opts, flyt.WithPrepFuncAny(func(ctx context.Context, shared *flyt.SharedStore) (any, error) {
				ev, ok := b.prepEvent(shared)
				b.log(ev)
				if !ok {
					return nil, b.reg.Err(prepErrTok)
				}
				return b.prepValue(), nil
			}))
		}
		bn.CustomNode = flyt.NewNode(opts...).CustomNode
		if !cfg.StopMode && cfg.ModeSet {
			bn.WithBatchErrorHandling(false) // (the replaced CustomNode starts from defaults again)
		}
	}
	// configuration: option form for half of the settings, builder form for the others
	bn.WithMaxRetries(cfg.N).WithWait(time.Duration(cfg.W) * time.Millisecond)
	if cfg.PrepN {
		bn.WithMaxRetries(cfg.N%3 + 2 - cfg.N%2) // not the real budget: the node's own prep sets that while the node runs
	}
	bn.WithBatchConcurrency(cfg.C)
	if cfg.PrepC {
		bn.WithBatchConcurrency((cfg.C + 3) % 5) // not the real level: the node's own prep sets that while the node runs
	}
	if cfg.StopMode || cfg.ModeSet {
		bn.WithBatchErrorHandling(!cfg.StopMode)
	}
	if cfg.Shape == "results" {
		bn.WithPrepFunc(func(ctx context.Context, shared *flyt.SharedStore) ([]flyt.Result, error) {
			ev, ok := b.prepEvent(shared)
			b.log(ev)
			if cfg.PrepN {
				bn.WithMaxRetries(cfg.N)
			}
			if cfg.PrepC {
				bn.WithBatchConcurrency(cfg.C)
			}
			if !ok {
				return nil, b.reg.Err(prepErrTok)
			}
			l := make([]flyt.Result, cfg.Items)
			for i := range l {
				if b.isErrItem(i + 1) {
					l[i] = flyt.NewErrorResult(b.reg.Err(itemTok(i + 1)))
				} else if cfg.NilItem == i+1 {
					l[i] = flyt.NewResult(nil)
				} else {
					l[i] = flyt.NewResult(b.reg.Payload(itemTok(i + 1)))
				}
			}
			return l, nil
		})
	}
	if cfg.ExSty == "a" {
		bn.WithExecFuncAny(func(ctx context.Context, p any) (any, error) {
			b.runInner(ctx)
			v, _, err := b.exec(b.reg.ObserveAny(p))
			return v, err
		})
	} else {
		bn.WithExecFunc(func(ctx context.Context, p flyt.Result) (flyt.Result, error) {
			b.runInner(ctx)
			v, eres, err := b.exec(b.reg.ObserveResult(p))
			if err != nil {
				return flyt.Result{}, err
			}
			if eres != nil {
				return flyt.NewErrorResult(eres), nil
			}
			return flyt.NewResult(v), nil
		})
	}
	bn.WithPostFunc(func(ctx context.Context, shared *flyt.SharedStore, items, results []flyt.Result) (flyt.Action, error) {
		return b.post(shared, items, results)
	})
	return bn
}

// the controller releases parked exec calls in the order the scenario prescribes
func (b *batchRun) controller() {
	defer func() {
		if p := recover(); p != nil {
			// a bug of the harness itself: say so loudly, then let every parked call go so that the run can end
			fmt.Fprintf(os.Stderr, "HARNESS-PANIC in batch controller: %v\n%s\n", p, debug.Stack())
			b.mu.Lock()
			b.stuck = true
			for _, pc := range b.parked {
				func() {
					defer func() { recover() }()
					close(pc.ch)
				}()
			}
			b.parked = nil
			b.mu.Unlock()
		}
	}()
	steps := b.sc.Release
	si := 0
	offScript := false
	waitParked := func(pred func() *parkedCall, d time.Duration) *parkedCall {
		deadline := time.After(d)
		for {
			b.mu.Lock()
			pc := pred()
			b.mu.Unlock()
			if pc != nil {
				return pc
			}
			select {
			case <-b.parkCh:
			case <-b.done:
				return nil
			case <-deadline:
				return nil
			case <-time.After(200 * time.Microsecond):
			}
		}
	}
	find := func(item, k int) *parkedCall {
		for _, p := range b.parked {
			if p.item == item && p.k == k {
				return p
			}
		}
		return nil
	}
	release := func(pc *parkedCall) {
		b.mu.Lock()
		for i, p := range b.parked {
			if p == pc {
				b.parked = append(b.parked[:i], b.parked[i+1:]...)
				break
			}
		}
		b.mu.Unlock()
		close(pc.ch)
	}
	for {
		select {
		case <-b.done:
			return
		default:
		}
		var pc *parkedCall
		if b.cfg.Sched == "script" && si < len(steps) && !offScript {
			st := steps[si]
			si++
			// wait until the expected in-flight set has formed, then release the prescribed call
			// ... and everything the behaviour shows before this release has been observed
			pc = waitParked(func() *parkedCall {
				if len(b.parked) >= st.Expect && b.nItemEv >= st.Before {
					return find(st.Item, st.K)
				}
				return nil
			}, 300*time.Millisecond)
			if pc == nil {
				offScript = true // the library left the scripted schedule: release whatever parks from now on
			}
			if pc != nil && st.Settle {
				// stop flag / skipped items are not observable: give the workers time to get there
				time.Sleep(b.settle)
			}
		}
		if b.cfg.Sched == "wave" {
			// simultaneous completions: wait for a full wave of c parked calls, then open all gates together
			want := b.cfg.C
			if want < 1 {
				want = 1
			}
			waitParked(func() *parkedCall {
				if len(b.parked) >= want {
					return b.parked[0]
				}
				return nil
			}, 3*time.Millisecond)
			b.mu.Lock()
			wave := b.parked
			b.parked = nil
			b.mu.Unlock()
			if len(wave) == 0 {
				select {
				case <-b.done:
					return
				case <-b.parkCh:
				case <-time.After(200 * time.Microsecond):
				}
				continue
			}
			for _, p := range wave {
				close(p.ch)
			}
			continue
		}
		if pc == nil {
			// off-script (or random schedule): release any parked call
			pc = waitParked(func() *parkedCall {
				if len(b.parked) == 0 {
					return nil
				}
				if b.cfg.Sched == "random" {
					return b.parked[b.rng.Intn(len(b.parked))]
				}
				return b.parked[0]
			}, 10*time.Second)
		}
		if pc == nil {
			select {
			case <-b.done:
				return
			default:
				continue
			}
		}
		if b.cfg.Sched == "random" {
			// let the other workers make progress before the next release, sometimes
			if b.rng.Intn(3) == 0 {
				time.Sleep(time.Duration(b.rng.Intn(200)) * time.Microsecond)
			}
		}
		release(pc)
	}
}

var batchSettle = 1 * time.Millisecond

func runBatchScenario(cfg BatchCfg, sc *BatchScript, seed int64) []Event {
	if cfg.Procs > 0 {
		old := runtime.GOMAXPROCS(cfg.Procs)
		defer runtime.GOMAXPROCS(old)
	}
	reg := NewRegistry()
	reg.NoTypedNil = true
	reg.RunCtxKind = cfg.CtxKind
	reg.MixFlavour = true
	if cfg.PostBE {
		reg.SetErr(postErrTok, &flyt.BatchError{})
	}
	b := &batchRun{settle: batchSettle, cfg: cfg, sc: sc, reg: reg, store: flyt.NewSharedStore(), gids: map[int64]int{}, att: map[int]int{},
		parkCh: make(chan struct{}, 1), done: make(chan struct{}), rng: rand.New(rand.NewSource(seed)), barrier: make(chan struct{})}
	b.barrierN = cfg.C
	if b.barrierN > cfg.Items {
		b.barrierN = cfg.Items
	}
	b.inBarrier = map[int]bool{}
	if len(cfg.Barrier) > 0 {
		for _, i := range cfg.Barrier {
			b.inBarrier[i] = true
		}
		b.barrierN = len(cfg.Barrier)
	} else {
		for i := 1; i <= b.barrierN; i++ {
			b.inBarrier[i] = true
		}
	}
	bn := b.build()
	if cfg.WarmC > 0 || cfg.WarmN > 0 {
		// the same node object has been run before with another concurrency level / retry budget
		b.warm = true
		if cfg.WarmC > 0 {
			bn.WithBatchConcurrency(cfg.WarmC)
		}
		if cfg.WarmN > 0 {
			bn.WithMaxRetries(cfg.WarmN)
		}
		flyt.Run(context.Background(), bn, b.store)
		if !cfg.PrepC {
			bn.WithBatchConcurrency(cfg.C)
		}
		bn.WithMaxRetries(cfg.N)
		b.warm = false
		b.mu.Lock()
		b.events, b.att, b.nItemEv, b.gids = nil, map[int]int{}, 0, map[int64]int{}
		b.mu.Unlock()
	}
	var ctx context.Context
	switch cfg.CtxKind {
	case "deadline":
		mc := newManualDeadlineCtx()
		ctx, b.cancel = mc, mc.expire
	case "cause":
		c2, cancel := context.WithCancelCause(context.Background())
		ctx, b.cancel = c2, func() { cancel(fmt.Errorf("service shutting down")) }
	case "timeout":
		// a real deadline, 150 ms from now (scenarios whose retry wait is longer than that)
		c2, cancel := context.WithTimeout(context.Background(), 150*time.Millisecond)
		ctx, b.cancel = c2, cancel
		go func() {
			select {
			case <-c2.Done():
				if c2.Err() == context.DeadlineExceeded {
					b.log(Event{"ev": "cancel", "cancel": true})
				}
			case <-b.done:
			}
		}()
	default:
		c2, cancel := context.WithCancel(context.Background())
		ctx, b.cancel = c2, cancel
	}
	if cfg.Ctx0 {
		b.cancel()
	}
	b.log(Event{"ev": "runcall", "ctxdone": ctx.Err() != nil})
	go b.controller()

	var node flyt.Node = bn
	probeRan := false
	switch cfg.Via {
	case "node":
		node = bn.BatchNode
	case "flow":
		probe := flyt.NewNode(flyt.WithExecFuncAny(func(ctx context.Context, p any) (any, error) { probeRan = true; return nil, nil }))
		node = flyt.NewFlow(bn).Connect(bn, flyt.DefaultAction, probe)
	}
	type result struct {
		a   flyt.Action
		err error
	}
	resCh := make(chan result, 1)
	start := time.Now()
	go func() {
		defer func() {
			if p := recover(); p != nil {
				b.log(Event{"ev": "panic", "msg": fmt.Sprint(p)})
				resCh <- result{"", fmt.Errorf("panic: %v", p)}
			}
		}()
		// keep the "caller" goroutine identity: this goroutine is the caller of flyt.Run
		b.mu.Lock()
		b.gids = map[int64]int{goid(): 0}
		b.mu.Unlock()
		a, err := flyt.Run(ctx, node, b.store)
		resCh <- result{a, err}
	}()
	select {
	case r := <-resCh:
		close(b.done)
		errs := []any{}
		for _, t := range b.reg.MatchAll(r.err) {
			errs = append(errs, t)
		}
		if cfg.Via == "flow" {
			// did the successor connected on the default action run?  (only meaningful when the batch succeeded)
			b.mu.Lock()
			postOK := false
			for _, e := range b.events {
				if e["ev"] == "bpost" && e["out"] == "ok" && (e["act"] == 0 || e["act"] == 1) {
					postOK = true
				}
			}
			b.mu.Unlock()
			if postOK {
				b.log(Event{"ev": "routed", "ok": probeRan})
			}
		}
		b.log(Event{"ev": "runret", "act": actTok(r.a), "iserr": r.err != nil, "errs": errs, "ctxerr": isCtxErr(r.err, ctx)})
		if cfg.After && b.keptResults != nil {
			// the same node object runs again (as the next pass of a looping flow would); what post was handed in
			// the first run belongs to that run and must look the same afterwards
			items, results := b.keptItems, b.keptResults
			b.warm = true
			func() {
				defer func() { recover() }()
				flyt.Run(context.Background(), bn, b.store)
			}()
			b.warm = false
			its, slots := b.observeLists(items, results)
			b.log(Event{"ev": "bpostagain", "items": its, "slots": slots})
		}
	case <-time.After(15 * time.Second):
		close(b.done)
		b.log(Event{"ev": "hang", "after_ms": int(time.Since(start) / time.Millisecond)})
	}
	b.cancel()
	b.mu.Lock()
	defer b.mu.Unlock()
	if b.stuck {
		b.events = append(b.events, Event{"ev": "stuck"})
	}
	return b.events
}

// ---------------------------------------------------------------------------
// items that are equal to each other are items all the same (family batchdup: counted facts)
// ---------------------------------------------------------------------------

var dupPtr = &struct{ A int }{7}

func runBatchDup(cfg BatchCfg) []Event {
	mk := func() any {
		switch cfg.DupKind {
		case "int":
			return 5
		case "string":
			return "same"
		case "nil":
			return nil
		case "ptr":
			return dupPtr // the very same pointer in every item
		case "empty":
			return struct{}{}
		case "errres":
			return nil
		}
		return []int{1} // equal, not comparable
	}
	var execs, posts, items, slots, okslots int32
	shared := errors.New("one error value shared by all items")
	b := flyt.NewBatchNode().
		WithPrepFunc(func(ctx context.Context, s *flyt.SharedStore) ([]flyt.Result, error) {
			l := make([]flyt.Result, cfg.Items)
			for i := range l {
				if cfg.DupKind == "errres" {
					l[i] = flyt.NewErrorResult(shared)
				} else {
					l[i] = flyt.NewResult(mk())
				}
			}
			return l, nil
		}).
		WithExecFunc(func(ctx context.Context, r flyt.Result) (flyt.Result, error) {
			atomic.AddInt32(&execs, 1)
			return flyt.NewResult("done"), nil
		}).
		WithPostFunc(func(ctx context.Context, s *flyt.SharedStore, a, x []flyt.Result) (flyt.Action, error) {
			atomic.AddInt32(&posts, 1)
			atomic.StoreInt32(&items, int32(len(a)))
			atomic.StoreInt32(&slots, int32(len(x)))
			for _, r := range x {
				if !r.IsError() && r.Value() == "done" {
					atomic.AddInt32(&okslots, 1)
				}
			}
			return flyt.DefaultAction, nil
		}).
		WithBatchConcurrency(cfg.C).WithBatchErrorHandling(!cfg.StopMode)
	ev := Event{"ev": "dupfacts", "hung": false, "iserr": false, "panicked": false}
	done := make(chan struct{})
	go func() {
		defer close(done)
		defer func() {
			if recover() != nil {
				ev["panicked"] = true
			}
		}()
		_, err := flyt.Run(context.Background(), b, flyt.NewSharedStore())
		ev["iserr"] = err != nil
	}()
	select {
	case <-done:
	case <-time.After(4 * time.Second):
		return []Event{{"ev": "dupfacts", "hung": true, "iserr": false, "panicked": false, "execs": int(atomic.LoadInt32(&execs)), "posts": 0, "items": 0, "slots": 0, "okslots": 0}}
	}
	ev["execs"], ev["posts"] = int(atomic.LoadInt32(&execs)), int(atomic.LoadInt32(&posts))
	ev["items"], ev["slots"], ev["okslots"] = int(atomic.LoadInt32(&items)), int(atomic.LoadInt32(&slots)), int(atomic.LoadInt32(&okslots))
	return []Event{ev}
}

// runInner: the exec callback of an item runs a whole flow of its own - fresh nodes, a store of its own, the callback's
// context - before it produces its outcome (the cookbook's batch of sub-flows; with several workers several such flows run
// at the same time).  Nothing is logged unless something is wrong with it.
func (b *batchRun) runInner(ctx context.Context) {
	if !b.cfg.Inner || b.warm || ctx == nil || ctx.Err() != nil {
		return
	}
	bad := func(format string, a ...any) {
		b.log(Event{"ev": "innerbad", "msg": fmt.Sprintf(format, a...)})
	}
	defer func() {
		if p := recover(); p != nil {
			bad("the inner flow panicked: %v", p)
		}
	}()
	own := flyt.NewSharedStore()
	var seen []string
	mk := func(name string, next flyt.Action) flyt.Node {
		return &innerNode{BaseNode: flyt.NewBaseNode(), name: name, next: next, own: own, seen: &seen, bad: bad}
	}
	x, y, z := mk("a", "go"), mk("b", ""), mk("c", "end")
	sub := flyt.NewFlow(y)
	sub.Connect(y, flyt.DefaultAction, z)
	fl := flyt.NewFlow(x)
	fl.Connect(x, "go", sub)
	act, err := flyt.Run(ctx, fl, own)
	if ctx.Err() != nil {
		return // cancelled meanwhile: whatever the inner run made of that is not this scenario's subject
	}
	if err != nil || act != "end" || strings.Join(seen, "") != "abc" {
		bad("the inner flow returned (%q, %v) after visiting %v", act, err, seen)
	}
	if v, ok := own.Get("inner"); !ok || v != "abc" {
		bad("the inner flow's store holds %v", v)
	}
}
