package main

import (
	"flag"
	"fmt"
	"os"
	"strings"
)

func main() {
	if len(os.Args) < 2 {
		fmt.Fprintln(os.Stderr, "usage: harness <family> [flags]")
		os.Exit(2)
	}
	fam := os.Args[1]
	fs := flag.NewFlagSet(fam, flag.ExitOnError)
	scn := fs.String("scn", "", "scenario file exported by TLC (ndjson of {cfg,h})")
	out := fs.String("out", "", "history output file (ndjson)")
	seed := fs.Int64("seed", 1, "seed for generated scenarios")
	count := fs.Int("count", 0, "number of generated base scenarios")
	modes := fs.String("modes", "", "comma separated generator modes")
	variants := fs.Int("variants", 2, "Go-kind variants per exported scenario")
	extra := fs.String("x", "", "family-specific options key=value,key=value")
	fs.Parse(os.Args[2:])
	if *out == "" {
		fatal("--out required")
	}
	opts := map[string]string{}
	for _, kv := range strings.Split(*extra, ",") {
		if kv == "" {
			continue
		}
		p := strings.SplitN(kv, "=", 2)
		if len(p) == 2 {
			opts[p[0]] = p[1]
		} else {
			opts[p[0]] = "1"
		}
	}
	o := NewOut(*out)
	defer o.Close()
	switch fam {
	case "engine":
		mainEngine(o, *scn, *seed, *count, *modes, *variants, opts)
	default:
		if f, ok := families[fam]; ok {
			f(o, *scn, *seed, *count, *modes, opts)
			return
		}
		fatal("unknown family %q", fam)
	}
}

// other families register themselves here
var families = map[string]func(o *Out, scn string, seed int64, count int, modes string, opts map[string]string){}

func mainEngine(o *Out, scnFile string, seed int64, count int, modes string, variants int, opts map[string]string) {
	id := 0
	emit := func(cfg EngineCfg, src string, exp []any, evs []Event) {
		id++
		cj := cfg.toJSON()
		agree := true
		if id%3 == 0 && !cfg.counted() { // every third scenario is also executed through (*Flow).Run
			if src == "tlc" {
				agree = flowRunAgrees(cfg, func() Script { return scriptFromHistory(exp) }, evs)
			} else {
				agree = flowRunAgrees(cfg, func() Script { return scriptForGenerated(cfg) }, evs)
			}
		}
		reent := true
		if id%4 == 1 && !cfg.Cancel && !cfg.counted() {
			// every fourth scenario is executed once more with a run of the same node object nested into an exec callback
			if src == "tlc" {
				reent = nestedRunInvisible(cfg, func() Script { return scriptFromHistory(exp) }, evs)
			} else {
				reent = nestedRunInvisible(cfg, func() Script { return scriptForGenerated(cfg) }, evs)
			}
		}
		fam := "engine"
		if cfg.zeroBudget() {
			fam = "enginezero" // no verdict: trace validation against the specification only
		}
		for _, x := range cfg.Outs {
			if x == "panic" {
				fam = "enginepanic" // judged only on what a run that does return must satisfy
			}
		}
		if cfg.counted() {
			fam = "enginelong" // judged on the counted facts of the run
		}
		o.WriteScenarioY(id, fam, src, cj, exp, evs, agree, reent)
	}
	if rp := opts["replay"]; rp != "" {
		// re-execute recorded scenarios (same configuration, same script) on the current tree
		for _, line := range readLines(rp) {
			cfg := parseEngineCfg(asMap(line["cfg"]))
			var script Script
			var exp []any
			if asStr(line["src"]) == "tlc" {
				exp = asList(line["exp"])
				script = scriptFromHistory(exp)
			} else {
				script = scriptForGenerated(cfg)
			}
			evs, _ := runEngineScenario(cfg, script)
			id++
			// a re-execution always includes the comparison with (*Flow).Run
			agree := true
			if asStr(line["src"]) == "tlc" {
				agree = flowRunAgrees(cfg, func() Script { return scriptFromHistory(exp) }, evs)
			} else {
				agree = flowRunAgrees(cfg, func() Script { return scriptForGenerated(cfg) }, evs)
			}
			fam := asStr(line["fam"])
			if fam == "" {
				fam = "engine"
			}
			reent := true
			if !cfg.Cancel && !cfg.counted() {
				if asStr(line["src"]) == "tlc" {
					reent = nestedRunInvisible(cfg, func() Script { return scriptFromHistory(exp) }, evs)
				} else {
					reent = nestedRunInvisible(cfg, func() Script { return scriptForGenerated(cfg) }, evs)
				}
			}
			o.WriteScenarioY(asInt(line["scn"]), fam, asStr(line["src"]), cfg.toJSON(), exp, evs, agree, reent)
		}
		return
	}
	if scnFile != "" {
		lines := readLines(scnFile)
		step := 1
		if ms := opts["maxscn"]; ms != "" {
			var maxScn int
			fmt.Sscanf(ms, "%d", &maxScn)
			if maxScn > 0 && len(lines) > maxScn {
				step = len(lines)/maxScn + 1
			}
		}
		for li, line := range lines {
			if (li+int(seed))%step != 0 || tooManyHangs() {
				continue
			}
			base := parseEngineCfg(asMap(line["cfg"]))
			exp := asList(line["h"])
			usesCtx := base.Cancel
			for _, b := range base.Ctx0 {
				usesCtx = usesCtx || b
			}
			for v := 0; v < variants; v++ {
				kinds := []string{"cancel"}
				if usesCtx {
					kinds = [][]string{{"cancel", "deadline"}, {"cause", "deadline"}, {"cancel", "cause"}}[(li+v)%3]
				}
				for _, ck := range kinds {
					cfg := base
					cfg.Nodes = append([]NodeCfg{}, base.Nodes...)
					cfg.Variant = v
					cfg.CtxKind = ck
					evs, _ := runEngineScenario(cfg, scriptFromHistory(exp))
					assignKinds(&cfg)
					emit(cfg, "tlc", exp, evs)
				}
			}
		}
	}
	if count > 0 {
		for mi, mode := range strings.Split(modes, ",") {
			if mode == "" {
				continue
			}
			genEngineScenarios(seed*1000+int64(mi), count, mode, func(cfg EngineCfg, src string, evs []Event) {
				emit(cfg, src, nil, evs)
			})
		}
	}
}

// counted: scenarios whose callbacks are counted and checked as they come instead of being kept
func (c EngineCfg) counted() bool { return c.GenMode == "hugeloop" || c.GenMode == "longchain" }
