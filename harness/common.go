package main

// Shared plumbing of the conformance harness: event records, payload and error
// registries (integer tokens <-> real Go values), ndjson I/O.
//
// Everything the TLA+ side sees is an integer token, a string enumeration or a
// boolean; the harness turns tokens into real Go values of many kinds and
// recovers the token (and checks object identity) when a value comes back.

import (
	"bufio"
	"context"
	"encoding/json"
	"errors"
	"fmt"
	"os"
	"reflect"
	"sort"
	"strings"
	"sync"

	"github.com/mark3labs/flyt"
)

type Event map[string]any

// A library that hangs costs a watchdog timeout per scenario: after a few hung scenarios the
// family stops generating new ones (the recorded hangs are evidence enough).
var hungScenarios int

const hangBudget = 4

func noteHang(evs []Event) {
	for _, e := range evs {
		if e["ev"] == "hang" || e["ev"] == "stuck" {
			hungScenarios++
			return
		}
		if n, ok := e["n"].(int); ok && e["ev"] == "leak" && n > 0 {
			hungScenarios++ // waiting for leaked goroutines costs seconds per scenario as well
			return
		}
	}
}
func tooManyHangs() bool { return hungScenarios >= hangBudget }

// ---------------------------------------------------------------------------
// ndjson output
// ---------------------------------------------------------------------------

type Out struct {
	mu sync.Mutex
	w  *bufio.Writer
	f  *os.File
	n  int
}

func NewOut(path string) *Out {
	f, err := os.Create(path)
	if err != nil {
		fatal("cannot create %s: %v", path, err)
	}
	return &Out{w: bufio.NewWriterSize(f, 1<<20), f: f}
}

func (o *Out) Write(evs ...Event) {
	o.mu.Lock()
	defer o.mu.Unlock()
	for _, e := range evs {
		b, err := json.Marshal(e)
		if err != nil {
			fatal("marshal event: %v", err)
		}
		o.w.Write(b)
		o.w.WriteByte('\n')
		o.n++
	}
}

// WriteScenario writes one scenario as one line: configuration, the behaviour
// TLC expected (if the scenario was exported by TLC) and the recorded history.
func (o *Out) WriteScenario(id int, fam, src string, cfg map[string]any, exp []any, evs []Event) {
	o.WriteScenarioX(id, fam, src, cfg, exp, evs, true)
}

// WriteScenarioX also records the outcome of the Flow.Run differential (engine family):
// flowrun = the convenience method Flow.Run behaved exactly like flyt.Run on the same scenario.
func (o *Out) WriteScenarioX(id int, fam, src string, cfg map[string]any, exp []any, evs []Event, flowrun bool) {
	o.WriteScenarioY(id, fam, src, cfg, exp, evs, flowrun, true)
}

// reent = a run of the same node object nested inside one of the scenario's exec callbacks left the scenario's own
// events unchanged (and the nested run saw its own values)
func (o *Out) WriteScenarioY(id int, fam, src string, cfg map[string]any, exp []any, evs []Event, flowrun, reent bool) {
	rec := Event{"scn": id, "fam": fam, "src": src, "cfg": cfg, "hasexp": exp != nil, "h": evs, "flowrun": flowrun, "reent": reent}
	if exp != nil {
		rec["exp"] = exp
	} else {
		rec["exp"] = []any{}
	}
	if evs == nil {
		rec["h"] = []Event{}
	}
	o.Write(rec)
	// keep what has been recorded if the library under test crashes the process later on
	o.mu.Lock()
	o.w.Flush()
	o.mu.Unlock()
}

func (o *Out) Close() {
	o.w.Flush()
	o.f.Close()
}

func fatal(format string, a ...any) {
	fmt.Fprintf(os.Stderr, "HARNESS-ERROR: "+format+"\n", a...)
	os.Exit(2)
}

// readLines reads an ndjson file into generic maps.
func readLines(path string) []map[string]any {
	f, err := os.Open(path)
	if err != nil {
		fatal("open %s: %v", path, err)
	}
	defer f.Close()
	var res []map[string]any
	sc := bufio.NewScanner(f)
	sc.Buffer(make([]byte, 1<<20), 1<<26)
	for sc.Scan() {
		line := sc.Bytes()
		if len(line) == 0 {
			continue
		}
		var m map[string]any
		if err := json.Unmarshal(line, &m); err != nil {
			fatal("bad json in %s: %v", path, err)
		}
		res = append(res, m)
	}
	return res
}

func asInt(v any) int {
	switch x := v.(type) {
	case float64:
		return int(x)
	case int:
		return x
	case nil:
		return 0
	}
	fatal("asInt: unexpected %T", v)
	return 0
}
func asBool(v any) bool  { b, _ := v.(bool); return b }
func asStr(v any) string { s, _ := v.(string); return s }
func asList(v any) []any {
	if v == nil {
		return nil
	}
	l, ok := v.([]any)
	if !ok {
		fatal("asList: unexpected %T", v)
	}
	return l
}
func asMap(v any) map[string]any {
	m, ok := v.(map[string]any)
	if !ok {
		fatal("asMap: unexpected %T", v)
	}
	return m
}

// ---------------------------------------------------------------------------
// payloads: token -> Go value of some kind, and back
// ---------------------------------------------------------------------------

type payloadPtr struct{ Tok int }
type payloadVal struct {
	Tok  int
	Note string
}

// a payload whose dynamic type happens to implement error (e.g. a validation finding passed on as data)
type payloadErrVal struct{ Tok int }

func (p payloadErrVal) Error() string {
	return fmt.Sprintf("finding %d (a value, not a failure)", p.Tok)
}

const nPayloadKinds = 10

// typed nil pointers: they carry no data, so the token is recovered from the pointer TYPE
// (the most recently created payload of that type; eight types are cycled through, and a
// value only travels within one node visit, so the latest one is the right one)
type nilT0 struct{ _ int }
type nilT1 struct{ _ int }
type nilT2 struct{ _ int }
type nilT3 struct{ _ int }
type nilT4 struct{ _ int }
type nilT5 struct{ _ int }
type nilT6 struct{ _ int }
type nilT7 struct{ _ int }

func typedNil(i int) any {
	switch i % 8 {
	case 0:
		return (*nilT0)(nil)
	case 1:
		return (*nilT1)(nil)
	case 2:
		return (*nilT2)(nil)
	case 3:
		return (*nilT3)(nil)
	case 4:
		return (*nilT4)(nil)
	case 5:
		return (*nilT5)(nil)
	case 6:
		return (*nilT6)(nil)
	}
	return (*nilT7)(nil)
}

func typedNilIndex(v any) int {
	switch v.(type) {
	case *nilT0:
		return 0
	case *nilT1:
		return 1
	case *nilT2:
		return 2
	case *nilT3:
		return 3
	case *nilT4:
		return 4
	case *nilT5:
		return 5
	case *nilT6:
		return 6
	case *nilT7:
		return 7
	}
	return -1
}

// Registry maps tokens to the concrete values handed to the library in one scenario.
type Registry struct {
	mu         sync.Mutex
	vals       map[int]any
	errs       map[int]error
	lastNil    [8]int // latest token whose payload is the typed nil pointer of type i
	nilPtrTok  int    // token registered for the typed nil *payloadPtr (0: none)
	NoTypedNil bool   // families whose tokens are not sequential keep to data-carrying payloads
	RunCtxKind string // kind of the run's context (a callback's own context error must differ from it)
	MixFlavour bool   // tokens are item*1000+...: take the item into the choice of the error flavour
}

func NewRegistry() *Registry {
	return &Registry{vals: map[int]any{}, errs: map[int]error{}}
}

// Payload returns the Go value that stands for token tok (0 = nil). The kind of
// value depends on the token, so every scenario mixes pointers, maps, slices,
// structs and scalars.
func (r *Registry) Payload(tok int) any {
	if tok == 0 {
		return nil
	}
	r.mu.Lock()
	defer r.mu.Unlock()
	if v, ok := r.vals[tok]; ok {
		return v
	}
	var v any
	sel := tok % nPayloadKinds
	if r.MixFlavour {
		sel = (tok/1000*7 + tok) % nPayloadKinds // tokens are item*1000+attempt: every kind occurs at the first attempts of some item
	}
	switch sel {
	case 0:
		v = &payloadPtr{Tok: tok}
	case 1:
		v = map[string]any{"tok": tok}
	case 2:
		v = []any{"tok", tok}
	case 3:
		v = payloadVal{Tok: tok, Note: "v"}
	case 4:
		v = tok
	case 5:
		v = fmt.Sprintf("tok:%d", tok)
	case 6:
		v = []int{tok, tok}
	case 8:
		v = payloadErrVal{Tok: tok}
	case 9:
		v = flyt.Action(fmt.Sprintf("act-payload-%d", tok)) // a value whose dynamic type is flyt.Action is data like any other
	case 7:
		if r.NoTypedNil {
			v = &payloadPtr{Tok: tok}
		} else {
			i := (tok / nPayloadKinds) % 8
			v = typedNil(i)
			r.lastNil[i] = tok
		}
	}
	r.vals[tok] = v
	return v
}

// SetPayload registers a specific Go value as the payload of token tok.
func (r *Registry) SetPayload(tok int, v any) {
	r.mu.Lock()
	if p, ok := v.(*payloadPtr); ok && p == nil {
		r.nilPtrTok = tok
	}
	r.vals[tok] = v
	r.mu.Unlock()
}

// Observe recovers the token of a plain (non-Result) value and reports whether
// it is the very object that was handed out (identity for reference kinds,
// equality otherwise). Unknown values give token -1.
func (r *Registry) Observe(v any) (tok int, same bool) {
	if v == nil {
		return 0, true
	}
	tok = -1
	if i := typedNilIndex(v); i >= 0 {
		r.mu.Lock()
		t := r.lastNil[i]
		r.mu.Unlock()
		if t == 0 {
			return -1, false
		}
		return t, true
	}
	switch x := v.(type) {
	case *payloadPtr:
		if x != nil {
			tok = x.Tok
		} else if r.nilPtrTok != 0 {
			return r.nilPtrTok, true // the registered typed nil pointer
		}
	case map[string]any:
		if t, ok := x["tok"].(int); ok {
			tok = t
		}
	case []any:
		if len(x) == 2 {
			if t, ok := x[1].(int); ok {
				tok = t
			}
		}
	case payloadVal:
		tok = x.Tok
	case payloadErrVal:
		tok = x.Tok
	case flyt.Action:
		var t int
		if _, err := fmt.Sscanf(string(x), "act-payload-%d", &t); err == nil {
			tok = t
		}
	case prio:
		tok = int(x) * 1000 // a small named integer: item number i of a typed slice of them
	case int:
		tok = x
	case string:
		var t int
		if _, err := fmt.Sscanf(x, "tok:%d", &t); err == nil {
			tok = t
		}
	case []int:
		if len(x) == 2 && x[0] == x[1] {
			tok = x[0]
		}
	}
	if tok <= 0 {
		return -1, false
	}
	r.mu.Lock()
	orig, ok := r.vals[tok]
	r.mu.Unlock()
	if !ok {
		return tok, false
	}
	return tok, sameObject(orig, v)
}

func sameObject(a, b any) bool {
	ra, rb := reflect.ValueOf(a), reflect.ValueOf(b)
	if ra.Type() != rb.Type() {
		return false
	}
	switch ra.Kind() {
	case reflect.Ptr, reflect.Map:
		return ra.Pointer() == rb.Pointer()
	case reflect.Slice:
		return ra.Pointer() == rb.Pointer() && ra.Len() == rb.Len()
	default:
		return reflect.DeepEqual(a, b)
	}
}

// ---------------------------------------------------------------------------
// errors: token -> error value of some flavour, and matching
// ---------------------------------------------------------------------------

type tokErrVal struct{ Tok int }

func (e tokErrVal) Error() string { return fmt.Sprintf("custom-typed error %d", e.Tok) }

type errEntry struct {
	ret   error // the value handed to the library
	inner error // for the wrapped flavour: the sentinel inside
}

// Err returns the error value for token tok: a sentinel, a %w-wrapped sentinel
// or a custom-typed value, depending on the token.
func (r *Registry) Err(tok int) error {
	r.mu.Lock()
	defer r.mu.Unlock()
	if e, ok := r.errs[tok]; ok {
		return e
	}
	var e error
	// consecutive tokens share a flavour pairwise: two attempts in a row may fail with errors of the same dynamic type
	sel := (tok / 2) % 7
	if r.MixFlavour {
		sel = (tok/1000 + (tok%1000)/2) % 7 // every flavour occurs at the first attempts of some item
	}
	switch sel {
	case 6:
		// an error that says of itself that retrying is pointless (Temporary() == false, Timeout() == false, as
		// syscall.Errno and *os.PathError do): it is an error like any other to the retry loop and to the fallback
		e = &permErr{Tok: tok}
	case 5:
		// an error type that cannot be compared with == (a slice of messages, as validation libraries return)
		e = fieldErrs{fmt.Sprintf("field error %d", tok), "second message"}
	case 4:
		// a failure of the callback's own making that wraps a context error although the run's context is live
		// (a node-local timeout): it is an ordinary error of the callback
		inner := error(context.DeadlineExceeded)
		if r.RunCtxKind == "deadline" {
			inner = context.Canceled // never the kind of error the run's own context will have
		}
		e = &wrapErr{msg: fmt.Sprintf("node-local timeout %d", tok), inner: inner}
	case 3:
		// several errors joined: each of them, and the joined value, must stay matchable
		e = &joinedErr{err: errors.Join(errors.New(fmt.Sprintf("joined a %d", tok)), errors.New(fmt.Sprintf("joined b %d", tok)))}
	case 0:
		e = errors.New(fmt.Sprintf("sentinel error %d", tok))
	case 1:
		e = &wrapErr{msg: fmt.Sprintf("wrapped error %d", tok), inner: errors.New(fmt.Sprintf("inner sentinel %d", tok))}
	case 2:
		e = tokErrVal{Tok: tok}
	}
	r.errs[tok] = e
	return e
}

type permErr struct{ Tok int }

func (e *permErr) Error() string   { return fmt.Sprintf("permanent error %d", e.Tok) }
func (e *permErr) Temporary() bool { return false }
func (e *permErr) Timeout() bool   { return false }

// a named type whose kind is uint8 (an enum of small numbers): a slice of them is a slice of items, not a byte string
type prio uint8

type fieldErrs []string

func (f fieldErrs) Error() string { return strings.Join(f, "; ") }
func (f fieldErrs) Is(t error) bool {
	o, ok := t.(fieldErrs)
	return ok && len(o) == len(f) && len(f) > 0 && o[0] == f[0]
}

type joinedErr struct{ err error }

func (j *joinedErr) Error() string { return "joined: " + j.err.Error() }
func (j *joinedErr) Unwrap() error { return j.err }
func (j *joinedErr) parts() []error {
	if u, ok := j.err.(interface{ Unwrap() []error }); ok {
		return u.Unwrap()
	}
	return nil
}

// SetErr registers a specific error value for token tok.
func (r *Registry) SetErr(tok int, e error) {
	r.mu.Lock()
	r.errs[tok] = e
	r.mu.Unlock()
}

type wrapErr struct {
	msg   string
	inner error
}

func (w *wrapErr) Error() string { return w.msg + ": " + w.inner.Error() }
func (w *wrapErr) Unwrap() error { return w.inner }

// Matches reports whether err matches the error of token tok the way a caller
// would test it: errors.Is for sentinels (and the sentinel inside the wrapped
// flavour), errors.As for the custom type.
func (r *Registry) Matches(err error, tok int) bool {
	if err == nil {
		return false
	}
	r.mu.Lock()
	e, ok := r.errs[tok]
	r.mu.Unlock()
	if !ok {
		return false
	}
	switch x := e.(type) {
	case fieldErrs:
		var t fieldErrs
		return errors.As(err, &t) && len(t) > 0 && t[0] == x[0]
	case tokErrVal:
		// custom type: found by errors.As, and the value itself by errors.Is (walks joined errors too)
		var t tokErrVal
		return errors.As(err, &t) && errors.Is(err, x)
	case *wrapErr:
		return errors.Is(err, x) && errors.Is(err, x.inner)
	case *joinedErr:
		if !errors.Is(err, x) {
			return false
		}
		for _, p := range x.parts() {
			if !errors.Is(err, p) {
				return false
			}
		}
		return true
	default:
		return errors.Is(err, e)
	}
}

// MatchAll returns the sorted tokens of all registered errors that err matches.
func (r *Registry) MatchAll(err error) []int {
	res := []int{}
	if err == nil {
		return res
	}
	r.mu.Lock()
	toks := make([]int, 0, len(r.errs))
	for t := range r.errs {
		toks = append(toks, t)
	}
	r.mu.Unlock()
	sort.Ints(toks)
	for _, t := range toks {
		if r.Matches(err, t) {
			res = append(res, t)
		}
	}
	return res
}

func isCtxErr(err error, ctx context.Context) bool {
	// does the error match the error of THIS run's context? (a callback's own error may wrap some other context error)
	if err == nil {
		return false
	}
	ce := ctx.Err()
	return ce != nil && errors.Is(err, ce)
}

// ---------------------------------------------------------------------------
// observing values that may be wrapped in flyt.Result
// ---------------------------------------------------------------------------

type Obs struct {
	Tok    int    // token of the innermost plain value (0 = nil, -1 = unknown)
	Same   bool   // identical object
	Wrap   string // "raw": as the style expects; "double": Result inside Result; "res": a Result where a plain value belongs
	IsErr  bool   // the (outermost) Result is in error state
	ErrTok int    // token of that error (0 none, -1 unknown)
}

func (r *Registry) errTokOf(err error) int {
	m := r.MatchAll(err)
	if len(m) == 0 {
		return -1
	}
	return m[len(m)-1]
}

// ObserveAny inspects a value received through an `any` parameter.
func (r *Registry) ObserveAny(v any) Obs {
	if res, ok := v.(flyt.Result); ok {
		o := r.ObserveResult(res)
		o.Wrap = "res"
		return o
	}
	tok, same := r.Observe(v)
	return Obs{Tok: tok, Same: same, Wrap: "raw"}
}

// ObserveResult inspects a value received through a flyt.Result parameter.
func (r *Registry) ObserveResult(res flyt.Result) Obs {
	if res.IsError() {
		return Obs{Tok: 0, Same: true, Wrap: "raw", IsErr: true, ErrTok: r.errTokOf(res.Error())}
	}
	inner := res.Value()
	if in, ok := inner.(flyt.Result); ok {
		o := r.ObserveResult(in)
		o.Wrap = "double"
		// the outer Result is not in error state, whatever is inside
		o.IsErr = false
		o.ErrTok = 0
		return o
	}
	tok, same := r.Observe(inner)
	return Obs{Tok: tok, Same: same, Wrap: "raw"}
}
