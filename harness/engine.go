package main

// Engine family: flyt.Run on leaves, flows and nested flows.
//
// A scenario is a configuration (nodes, Connect operations per run, context
// state) plus a script giving the outcome of every user callback.  The harness
// builds real flyt nodes of the configured kinds, runs them, and records the
// observable history: Connect calls, the Run call, every user callback with
// what it actually received, and what Run returned.

import (
	"context"
	"errors"
	"fmt"
	"math"
	"math/rand"
	"strings"
	"sync"
	"time"

	"github.com/mark3labs/flyt"
)

// ---------------------------------------------------------------------------
// configuration
// ---------------------------------------------------------------------------

type NodeCfg struct {
	Kind  string // "leaf" | "flow"
	Retry bool   // exposes GetMaxRetries/GetWait
	Fb    bool   // has a user ExecFallback
	Func  bool   // built from functions (NodeBuilder)
	Sty   []string
	N     int
	W     int // retry wait in ms
	Start int // flows: id of the start node, 0 = nil
	Gk    string
	Big   int // > 0: the real budget is one of bigBudgets (N then holds a stand-in that fits the model checker's integers)
}

// retry budgets beyond 32 bits ("retry until it works"): the attempts a run can make never get near them
var bigBudgets = []int{0, 1 << 31, 1 << 32, math.MaxInt, 1<<32 + 3}

const bigStandIn = 2000000000

func (n NodeCfg) real() NodeCfg {
	if n.Big > 0 && n.Big < len(bigBudgets) {
		n.N = bigBudgets[n.Big]
	}
	return n
}

type ConnOp struct{ Flow, From, Act, To int }

type EngineCfg struct {
	Nodes    []NodeCfg
	Top      int
	Conns    [][]ConnOp
	Ctx0     []bool
	Runs     int
	Acts     []int
	Outs     []string
	Cancel   bool
	Nilstart bool
	CtxKind  string // "cancel" | "deadline"
	Variant  int
	// generated scenarios: everything needed to rebuild the script for a replay
	GenSeed string // decimal uint64
	GenMode string
	OvKey   []int // run, node, visit, k  (override position, empty: none)
	OvPhase string
	OvKind  string // "err" | "cancel"
	Dyn     bool   // dynamic wiring: only the first Pre[run] Connect calls are made before the run
	Pre     []int
}

func parseEngineCfg(m map[string]any) EngineCfg {
	var c EngineCfg
	for _, nv := range asList(m["nodes"]) {
		n := asMap(nv)
		nc := NodeCfg{Kind: asStr(n["kind"]), Retry: asBool(n["retry"]), Fb: asBool(n["fb"]), Func: asBool(n["func"]),
			N: asInt(n["N"]), W: asInt(n["w"]), Start: asInt(n["start"]), Gk: asStr(n["gk"]), Big: asInt(n["big"])}
		for _, s := range asList(n["sty"]) {
			nc.Sty = append(nc.Sty, asStr(s))
		}
		c.Nodes = append(c.Nodes, nc)
	}
	c.Top = asInt(m["top"])
	for _, rv := range asList(m["conns"]) {
		var ops []ConnOp
		for _, ov := range asList(rv) {
			o := asMap(ov)
			ops = append(ops, ConnOp{asInt(o["flow"]), asInt(o["from"]), asInt(o["act"]), asInt(o["to"])})
		}
		c.Conns = append(c.Conns, ops)
	}
	for _, b := range asList(m["ctx0"]) {
		c.Ctx0 = append(c.Ctx0, asBool(b))
	}
	c.Runs = asInt(m["runs"])
	for _, a := range asList(m["acts"]) {
		c.Acts = append(c.Acts, asInt(a))
	}
	for _, a := range asList(m["outs"]) {
		c.Outs = append(c.Outs, asStr(a))
	}
	c.Cancel = asBool(m["cancel"])
	c.Nilstart = asBool(m["nilstart"])
	c.CtxKind = asStr(m["ctxkind"])
	if c.CtxKind == "" {
		c.CtxKind = "cancel"
	}
	c.Variant = asInt(m["variant"])
	c.GenSeed = asStr(m["genseed"])
	c.GenMode = asStr(m["genmode"])
	for _, x := range asList(m["ovkey"]) {
		c.OvKey = append(c.OvKey, asInt(x))
	}
	c.OvPhase = asStr(m["ovphase"])
	c.OvKind = asStr(m["ovkind"])
	c.Dyn = asBool(m["dyn"])
	for _, x := range asList(m["pre"]) {
		c.Pre = append(c.Pre, asInt(x))
	}
	return c
}

func (c EngineCfg) toJSON() map[string]any {
	nodes := []any{}
	for _, n := range c.Nodes {
		sty := []any{}
		for _, s := range n.Sty {
			sty = append(sty, s)
		}
		nodes = append(nodes, map[string]any{"kind": n.Kind, "retry": n.Retry, "fb": n.Fb, "func": n.Func, "sty": sty,
			"N": n.N, "w": n.W, "start": n.Start, "gk": n.Gk, "big": n.Big})
	}
	conns := []any{}
	for _, ops := range c.Conns {
		l := []any{}
		for _, o := range ops {
			l = append(l, map[string]any{"flow": o.Flow, "from": o.From, "act": o.Act, "to": o.To})
		}
		conns = append(conns, l)
	}
	ctx0 := []any{}
	for _, b := range c.Ctx0 {
		ctx0 = append(ctx0, b)
	}
	acts := []any{}
	for _, a := range c.Acts {
		acts = append(acts, a)
	}
	outs := []any{}
	for _, a := range c.Outs {
		outs = append(outs, a)
	}
	ov := []any{}
	for _, x := range c.OvKey {
		ov = append(ov, x)
	}
	flowretry := false
	for _, n := range c.Nodes {
		if n.Kind == "flow" && n.N > 1 {
			flowretry = true
		}
	}
	pre := []any{}
	for r := range c.Conns {
		if r < len(c.Pre) {
			pre = append(pre, c.Pre[r])
		} else {
			pre = append(pre, len(c.Conns[r]))
		}
	}
	return map[string]any{"dyn": c.Dyn, "pre": pre, "flowretry": flowretry, "zerobudget": c.zeroBudget(), "nodes": nodes, "top": c.Top, "conns": conns, "ctx0": ctx0, "runs": c.Runs, "acts": acts,
		"outs": outs, "cancel": c.Cancel, "nilstart": c.Nilstart, "ctxkind": c.CtxKind, "variant": c.Variant,
		"genseed": c.GenSeed, "genmode": c.GenMode, "ovkey": ov, "ovphase": c.OvPhase, "ovkind": c.OvKind}
}

// zeroBudget: some node's retry budget is below one
func (c EngineCfg) zeroBudget() bool {
	for _, n := range c.Nodes {
		if n.Retry && n.N < 1 {
			return true
		}
	}
	return false
}

// concrete Go kinds for an abstract (retry, fb, func) triple
func goKinds(n NodeCfg) []string {
	switch {
	case n.Kind == "flow":
		return []string{"flow"}
	case n.Kind == "bleaf":
		return []string{"batchleaf", "batchleafnode"}
	case n.Func:
		return []string{"funcopt", "funcbld"}
	case n.Retry && n.Fb:
		return []string{"structfb", "plainretryfb", "structovfb"}
	case n.Retry && !n.Fb:
		return []string{"struct", "plainretry", "structov", "structzero", "structsh"}
	case !n.Retry && n.Fb:
		return []string{"plainfb"}
	default:
		return []string{"plain", "zerosize", "zerosize", "valnode", "zeroval"}
	}
}

// actions: integer tokens <-> flyt.Action
var actNames = map[int]flyt.Action{0: "", 1: flyt.DefaultAction, 2: "a", 3: "ab", 4: "b", 5: "abc", 6: "A", 7: " ", 8: "\n\t",
	9: "error", 10: "retry", 11: "fail", 12: "100%", 13: "a/b:c.d", 14: "%s%d%w", 99: "exit"} // (names that sound like outcomes are names like any other)

func actName(a int) flyt.Action {
	if s, ok := actNames[a]; ok {
		return s
	}
	return flyt.Action(fmt.Sprintf("act%d", a))
}
func actTok(a flyt.Action) int {
	for k, v := range actNames {
		if v == a {
			return k
		}
	}
	var n int
	if _, err := fmt.Sscanf(string(a), "act%d", &n); err == nil {
		return n
	}
	return -1
}

// ---------------------------------------------------------------------------
// scripts
// ---------------------------------------------------------------------------

type Outcome struct {
	Out    string // "ok" | "err" | "eres"
	Nil    bool
	Cancel bool
	Act    int
	Conns  int // post: number of pending Connect calls the callback makes before it returns (dynamic wiring)
}

type skey struct {
	Run, Node, Visit int
	Phase            string
	K                int
}

type Script interface {
	Get(k skey) Outcome
}

// mapScript: explicit outcomes (derived from a TLC behaviour), with escape defaults
type mapScript struct {
	m map[skey]Outcome
}

func defaultOutcome(k skey) Outcome {
	switch k.Phase {
	case "prep":
		return Outcome{Out: "ok"}
	case "exec":
		return Outcome{Out: "err"}
	case "fb":
		return Outcome{Out: "err"}
	default:
		return Outcome{Out: "ok", Act: 99} // unconnected action: lets every flow end
	}
}

func (s *mapScript) Get(k skey) Outcome {
	if o, ok := s.m[k]; ok {
		return o
	}
	return defaultOutcome(k)
}

// scriptFromHistory derives the callback outcomes from an expected history.
func scriptFromHistory(h []any) *mapScript {
	s := &mapScript{m: map[skey]Outcome{}}
	run := 0
	visits := map[int]int{}
	inRun, conns := false, 0
	for _, ev := range h {
		e := asMap(ev)
		node := asInt(e["node"])
		switch asStr(e["ev"]) {
		case "connect":
			if inRun {
				conns++ // made from inside the post callback that follows
			}
		case "runret", "panic":
			inRun = false
		case "runcall":
			inRun, conns = true, 0
			run++
			visits = map[int]int{}
		case "prep":
			visits[node]++
			s.m[skey{run, node, visits[node], "prep", 0}] = Outcome{Out: asStr(e["out"]), Nil: asStr(e["out"]) == "ok" && asInt(e["val"]) == 0, Cancel: asBool(e["cancel"])}
		case "exec":
			s.m[skey{run, node, visits[node], "exec", asInt(e["k"])}] = Outcome{Out: asStr(e["out"]), Nil: asStr(e["out"]) == "ok" && asInt(e["val"]) == 0, Cancel: asBool(e["cancel"])}
		case "fb":
			s.m[skey{run, node, visits[node], "fb", 0}] = Outcome{Out: asStr(e["out"]), Nil: asStr(e["out"]) == "ok" && asInt(e["val"]) == 0, Cancel: asBool(e["cancel"])}
		case "post":
			s.m[skey{run, node, visits[node], "post", 0}] = Outcome{Out: asStr(e["out"]), Act: asInt(e["act"]), Cancel: asBool(e["cancel"]), Conns: conns}
			conns = 0
		}
	}
	return s
}

// ---------------------------------------------------------------------------
// a context whose expiry the harness controls (emulates a deadline firing at a
// chosen instant without any real-time dependence)
// ---------------------------------------------------------------------------

type manualDeadlineCtx struct {
	context.Context
	mu   sync.Mutex
	done chan struct{}
	err  error
}

func newManualDeadlineCtx() *manualDeadlineCtx {
	return &manualDeadlineCtx{Context: context.Background(), done: make(chan struct{})}
}
func (c *manualDeadlineCtx) Done() <-chan struct{} { return c.done }
func (c *manualDeadlineCtx) Err() error {
	c.mu.Lock()
	defer c.mu.Unlock()
	return c.err
}
func (c *manualDeadlineCtx) Deadline() (time.Time, bool) { return time.Now().Add(time.Hour), true }
func (c *manualDeadlineCtx) expire() {
	c.mu.Lock()
	defer c.mu.Unlock()
	if c.err == nil {
		c.err = context.DeadlineExceeded
		close(c.done)
	}
}

// ---------------------------------------------------------------------------
// one scenario execution
// ---------------------------------------------------------------------------

type scnRun struct {
	cfg        EngineCfg
	reg        *Registry
	script     Script
	events     []Event
	store      *flyt.SharedStore
	tok        int
	run        int
	visits     map[int]int // per run: node -> visits so far
	att        map[int]int // node -> attempts in current visit
	cancel     func()
	ctx        context.Context // the context of the current run
	seenCtx    []context.Context
	nodes      map[int]flyt.Node
	nCb        int
	maxCb      int
	over       bool
	mu         sync.Mutex
	flowRun    bool      // call the convenience method (*Flow).Run instead of flyt.Run
	nest       *nestSpec // a run of the same node object is nested into this exec callback (re-entrancy differential)
	nestDone   bool
	nestBad    string
	nestPosts  int                       // posts of the nested run so far
	sharedBase map[[2]int]*flyt.BaseNode // one BaseNode object per settings, shared by the nodes of kind structsh
	pending    []ConnOp                  // Connect calls of this run that are still to be made from inside post callbacks
	visitLog   bool                      // append node ids to a list in the store (C10 differential)
	compact    *longFacts                // a very long run: callback events are counted and checked as they come instead of being kept
}

// longFacts: what is kept of a run with tens of thousands of rounds of the same one-node body
type longFacts struct {
	Rounds, Preps, Execs, Posts, Fbs int
	InOrder, Store                   bool
	Chain                            bool // a chain of Rounds distinct nodes (visited once each, in order) instead of Rounds rounds of one node
	EndAct                           int
	next                             string
}

func (l *longFacts) absorb(e Event) bool {
	ev, _ := e["ev"].(string)
	switch ev {
	case "prep":
		l.Preps++
		if id, _ := e["node"].(int); l.Chain && id != l.Preps {
			l.InOrder = false // the k-th visit of a chain is node k
		}
	case "exec":
		l.Execs++
	case "post":
		l.Posts++
	case "fb":
		l.Fbs++
	default:
		return false
	}
	if ev != l.next {
		l.InOrder = false
	}
	l.next = map[string]string{"prep": "exec", "exec": "post", "post": "prep"}[ev]
	if sok, has := e["sok"]; has && sok != true {
		l.Store = false
	}
	return true
}

// ctxAlive: every context a callback of this run was given so far is still alive, unless the run's own context is
// done - a nested flow must not hand its nodes a context that dies before the whole run ends
func (s *scnRun) ctxAlive(ctx context.Context) bool {
	ok := true
	rootDone := s.ctx != nil && s.ctx.Err() != nil
	known := false
	for _, c := range s.seenCtx {
		if c == ctx {
			known = true
		}
		if c.Err() != nil && !rootDone {
			ok = false
		}
	}
	if !known && ctx != nil {
		s.seenCtx = append(s.seenCtx, ctx)
		if ctx.Err() != nil && !rootDone {
			ok = false
		}
	}
	return ok
}

func (s *scnRun) log(e Event) {
	s.mu.Lock()
	if s.compact != nil && s.compact.absorb(e) {
		s.mu.Unlock()
		return
	}
	s.events = append(s.events, e)
	s.mu.Unlock()
}
func (s *scnRun) callbacksSoFar() int {
	s.mu.Lock()
	defer s.mu.Unlock()
	if s.compact == nil {
		return len(s.events)
	}
	return s.compact.Preps + s.compact.Execs + s.compact.Posts + s.compact.Fbs
}
func (s *scnRun) nextTok() int { t := s.tok; s.tok++; return t }

// guard against runaway executions (only reachable when the library misroutes):
// after maxCb callbacks every post returns the unconnected exit action and prep fails
func (s *scnRun) overrun() bool {
	s.nCb++
	if s.nCb > s.maxCb {
		s.over = true
	}
	if s.nCb > 2*s.maxCb && s.cancel != nil {
		s.cancel() // the failing prep did not stop the run: try the context
	}
	if s.nCb > 3*s.maxCb {
		// nothing stops this execution: abandon it (recovered around flyt.Run, recorded as a panic event)
		panic("harness: runaway execution abandoned after too many callbacks")
	}
	return s.over
}

type leafCore struct {
	s  *scnRun
	id int
}

// prepAsEres: in generated scenarios the Result-style prep function of every other node hands a nil value over as an
// error Result (see buildFuncNode); its value is nil - whether post is also shown the error state is left open (a second
// wrapping is not: that is Wrap "double")
func (c *leafCore) prepAsEres(p Obs) bool {
	nc := c.s.cfg.Nodes[c.id-1]
	return c.s.cfg.GenMode != "" && nc.Func && len(nc.Sty) == 3 && nc.Sty[0] == "r" && (c.id+c.s.cfg.Variant)%2 == 0 && p.Tok == 0
}

// ---- re-entrancy: a nested run of the same node object -----------------------------------------------
//
// One exec callback of the scenario runs the very node object it belongs to once more - on a store of its own, under a
// context marked as nested - before it produces its own outcome (a recursive walk does that).  The nested run has its
// own prep value, exec result and post; nothing of it may show in the surrounding run: the scenario's events must be the
// same as without the nested run.

type nestSpec struct{ Node, Visit, K int }
type nestedKey struct{}

const nestPrepTok, nestExecTok = 900001, 900002

func isNested(ctx context.Context) bool { return ctx != nil && ctx.Value(nestedKey{}) != nil }

func (s *scnRun) nestedBad(format string, a ...any) {
	if s.nestBad == "" {
		s.nestBad = fmt.Sprintf(format, a...)
	}
}

func (s *scnRun) runNested(ctx context.Context, id int) {
	defer func() {
		if p := recover(); p != nil {
			s.nestedBad("the nested run panicked: %v", p)
		}
	}()
	act, err := flyt.Run(context.WithValue(ctx, nestedKey{}, id), s.nodes[id], flyt.NewSharedStore())
	if err != nil || act != flyt.DefaultAction {
		s.nestedBad("the nested run returned (%q, %v)", act, err)
	}
	// ... and a whole flow of its own (fresh nodes, a store of its own) run from inside the callback under the callback's
	// context - the way a batch of sub-flows is written: its nodes work on ITS store
	own := flyt.NewSharedStore()
	var seen []string
	mk := func(name string, next flyt.Action) flyt.Node {
		return &innerNode{BaseNode: flyt.NewBaseNode(), name: name, next: next, own: own, outer: s.store, seen: &seen, bad: s.nestedBad}
	}
	a, b2, c := mk("a", "go"), mk("b", ""), mk("c", "end")
	sub := flyt.NewFlow(b2)
	sub.Connect(b2, flyt.DefaultAction, c)
	fl := flyt.NewFlow(a)
	fl.Connect(a, "go", sub)
	act, err = flyt.Run(ctx, fl, own)
	if err != nil || act != "end" || strings.Join(seen, "") != "abc" {
		s.nestedBad("the flow run from inside the callback returned (%q, %v) after visiting %v", act, err, seen)
	}
	if v, ok := own.Get("inner"); !ok || v != "abc" {
		s.nestedBad("the inner flow's store holds %v", v)
	}
	if s.store.Has("inner") {
		s.nestedBad("the inner flow wrote to the outer run's store")
	}
	// ... and the scenario's own top-level flow object once more, on a scratch store, while its outer run is still in
	// progress (a recursive sub-problem): the store of a run belongs to the run, not to the flow object
	if top, isFlow := s.nodes[s.cfg.Top].(*flyt.Flow); isFlow && s.nestTopOK() {
		s.nestPosts = 0
		if _, err := flyt.Run(context.WithValue(ctx, nestedKey{}, id), top, flyt.NewSharedStore()); err != nil {
			s.nestedBad("the nested run of the top-level flow failed: %v", err)
		}
	}
}

// nestTopOK: the top-level flow can be run once more from inside one of its own callbacks (its leaves then answer as
// nested leaves do; batch steps and flows that are being re-wired are left out)
func (s *scnRun) nestTopOK() bool {
	if s.cfg.Dyn || s.cfg.Nilstart || s.cfg.zeroBudget() {
		return false
	}
	for _, n := range s.cfg.Nodes {
		if n.Kind == "bleaf" {
			return false
		}
	}
	return true
}

// a node of the flow that is run from inside a callback
type innerNode struct {
	*flyt.BaseNode
	name  string
	next  flyt.Action
	own   *flyt.SharedStore
	outer *flyt.SharedStore
	seen  *[]string
	bad   func(string, ...any)
}

func (n *innerNode) Prep(ctx context.Context, shared *flyt.SharedStore) (any, error) {
	if shared != n.own {
		n.bad("node %s of the inner flow was prepared with a store that is not the inner run's (the outer one: %v)", n.name, shared == n.outer)
	}
	return n.name, nil
}
func (n *innerNode) Exec(ctx context.Context, p any) (any, error) { return p, nil }
func (n *innerNode) Post(ctx context.Context, shared *flyt.SharedStore, p, x any) (flyt.Action, error) {
	if shared != n.own {
		n.bad("node %s of the inner flow was post-processed with a store that is not the inner run's", n.name)
	}
	*n.seen = append(*n.seen, n.name)
	if shared != nil {
		cur, _ := shared.Get("inner")
		cs, _ := cur.(string)
		shared.Set("inner", cs+n.name)
	}
	return n.next, nil
}

func (c *leafCore) prep(ctx context.Context, shared *flyt.SharedStore) (any, error) {
	s := c.s
	if isNested(ctx) {
		if shared == s.store {
			s.nestedBad("the nested run was handed the outer store")
		}
		return s.reg.Payload(nestPrepTok), nil
	}
	cok := s.ctxAlive(ctx)
	s.visits[c.id]++
	s.att[c.id] = 0
	o := s.script.Get(skey{s.run, c.id, s.visits[c.id], "prep", 0})
	if s.overrun() {
		o = Outcome{Out: "err"}
	}
	t := s.nextTok()
	seen := 0
	if shared != nil {
		if v, ok := shared.Get("last"); ok {
			seen, _ = v.(int)
		}
	}
	ev := Event{"ev": "prep", "node": c.id, "sok": shared == s.store, "cok": cok, "seen": seen, "out": o.Out, "val": 0, "err": 0, "cancel": o.Cancel}
	if s.visitLog && shared != nil {
		cur, _ := shared.Get("visits")
		l, _ := cur.([]int)
		shared.Set("visits", append(append([]int{}, l...), c.id))
	}
	if o.Out == "panic" {
		ev["cancel"] = false
		s.log(ev)
		panic(scriptedPanic(t))
	}
	if o.Cancel {
		s.cancel()
	}
	if o.Out == "ok" {
		if !o.Nil {
			ev["val"] = t
		}
		s.log(ev)
		if o.Nil {
			return nil, nil
		}
		return s.reg.Payload(t), nil
	}
	ev["err"] = t
	s.log(ev)
	return nil, s.reg.Err(t)
}

// a scripted callback panic: with a string for even tokens (as the library's own Must* helpers do), with an error
// value for odd ones (as runtime panics are)
type scriptedPanicErr struct{ tok int }

func (e scriptedPanicErr) Error() string { return fmt.Sprintf("scripted panic %d", e.tok) }
func scriptedPanic(t int) any {
	if t%2 == 0 {
		return fmt.Sprintf("scripted panic %d", t)
	}
	return scriptedPanicErr{t}
}
func isScriptedPanic(p any) bool {
	switch x := p.(type) {
	case string:
		return strings.HasPrefix(x, "scripted panic ")
	case scriptedPanicErr:
		return true
	}
	return false
}

// exec returns (value, errorResultError, goError)
func (c *leafCore) exec(ctx context.Context, arg Obs) (any, error, error) {
	s := c.s
	if isNested(ctx) {
		if arg.Tok != nestPrepTok || !arg.Same {
			s.nestedBad("the nested exec received token %d instead of its own prep value", arg.Tok)
		}
		return s.reg.Payload(nestExecTok), nil, nil
	}
	cok := s.ctxAlive(ctx)
	s.att[c.id]++
	k := s.att[c.id]
	if n := s.nest; n != nil && !s.nestDone && s.run == 1 && n.Node == c.id && n.Visit == s.visits[c.id] && n.K == k {
		s.nestDone = true
		s.runNested(ctx, c.id)
	}
	o := s.script.Get(skey{s.run, c.id, s.visits[c.id], "exec", k})
	s.overrun()
	t := s.nextTok()
	aw := arg.Wrap
	if arg.IsErr {
		aw = "eres"
	}
	ev := Event{"ev": "exec", "node": c.id, "k": k, "arg": arg.Tok, "aw": aw, "aid": arg.Same, "cok": cok, "out": o.Out, "val": 0, "err": 0, "cancel": o.Cancel}
	if o.Out == "panic" {
		ev["cancel"] = false
		s.log(ev)
		panic(scriptedPanic(t))
	}
	if o.Cancel {
		s.cancel()
	}
	switch o.Out {
	case "ok":
		if o.Nil {
			s.log(ev)
			return nil, nil, nil
		}
		ev["val"] = t
		s.log(ev)
		return s.reg.Payload(t), nil, nil
	case "eres":
		ev["err"] = t
		s.log(ev)
		return nil, s.reg.Err(t), nil
	default:
		ev["err"] = t
		s.log(ev)
		if o.Cancel && t%2 == 1 && s.ctx != nil && s.ctx.Err() != nil {
			// the attempt that cancelled the context fails with (a wrap of) the context's error, as a well-behaved exec would
			s.reg.SetErr(t, &wrapErr{msg: fmt.Sprintf("attempt gave up %d", t), inner: s.ctx.Err()})
		}
		// a failing attempt also hands back a partial value (io.Reader style): it must never reach post
		junk := &payloadPtr{Tok: junkBase + t}
		s.reg.SetPayload(junkBase+t, junk)
		return junk, nil, s.reg.Err(t)
	}
}

// tokens of values that accompany an error and must be ignored by the library
const junkBase = 500000

func (c *leafCore) fallback(prepResult any, err error) (any, error) {
	s := c.s
	o := s.script.Get(skey{s.run, c.id, s.visits[c.id], "fb", 0})
	s.overrun()
	t := s.nextTok()
	arg := s.reg.ObserveAny(prepResult)
	seen := []any{}
	for _, x := range s.reg.MatchAll(err) {
		seen = append(seen, x)
	}
	ev := Event{"ev": "fb", "node": c.id, "arg": arg.Tok, "aid": arg.Same && arg.Wrap == "raw", "errseen": seen, "out": o.Out, "val": 0, "err": 0, "cancel": o.Cancel}
	if o.Cancel {
		s.cancel()
	}
	if o.Out == "ok" {
		if o.Nil {
			s.log(ev)
			return nil, nil
		}
		ev["val"] = t
		s.log(ev)
		return s.reg.Payload(t), nil
	}
	ev["err"] = t
	s.log(ev)
	return nil, s.reg.Err(t)
}

func (c *leafCore) post(ctx context.Context, shared *flyt.SharedStore, p, x Obs) (flyt.Action, error) {
	s := c.s
	if isNested(ctx) {
		if p.Tok != nestPrepTok || x.Tok != nestExecTok {
			s.nestedBad("the nested post received prep %d / exec %d instead of its own values", p.Tok, x.Tok)
		}
		s.nestPosts++
		if s.nestPosts > 30 {
			return actName(99), nil // a nested run of a whole flow follows default edges only: leave a cycle of them
		}
		return flyt.DefaultAction, nil
	}
	cok := s.ctxAlive(ctx)
	o := s.script.Get(skey{s.run, c.id, s.visits[c.id], "post", 0})
	if s.overrun() {
		o = Outcome{Out: "ok", Act: 99}
	}
	t := s.nextTok()
	if shared != nil {
		shared.Set("last", t) // data for the nodes that follow
	}
	for i := 0; i < o.Conns && len(s.pending) > 0 && o.Out != "panic"; i++ {
		// dynamic wiring: this node connects nodes of the running flow
		s.doConnect(s.pending[0])
		s.pending = s.pending[1:]
	}
	ev := Event{"ev": "post", "node": c.id, "sok": shared == s.store, "cok": cok, "wrote": t, "prep": p.Tok, "pid": p.Same && p.Wrap == "raw" && (!p.IsErr || c.prepAsEres(p)),
		"exec": x.Tok, "eid": x.Same, "ew": x.Wrap, "eerr": x.IsErr, "eerrtok": x.ErrTok,
		"out": o.Out, "act": 0, "err": 0, "cancel": o.Cancel}
	if o.Out == "panic" {
		ev["cancel"] = false
		s.log(ev)
		panic(scriptedPanic(t))
	}
	if o.Cancel {
		s.cancel()
	}
	if o.Out == "ok" {
		ev["act"] = o.Act
		s.log(ev)
		return actName(o.Act), nil
	}
	ev["err"] = t
	s.log(ev)
	if t%2 == 0 {
		// the common `return flyt.DefaultAction, err` idiom: the action must not be reported with the error
		return flyt.DefaultAction, s.reg.Err(t)
	}
	return "", s.reg.Err(t)
}

// ---- concrete node types ---------------------------------------------------

// struct node embedding *flyt.BaseNode (retry settings and default fallback by promotion)
type structNode struct {
	*flyt.BaseNode
	c *leafCore
}

func (n *structNode) Prep(ctx context.Context, shared *flyt.SharedStore) (any, error) {
	return n.c.prep(ctx, shared)
}
func (n *structNode) Exec(ctx context.Context, p any) (any, error) {
	v, _, err := n.c.exec(ctx, n.c.s.reg.ObserveAny(p))
	return v, err
}
func (n *structNode) Post(ctx context.Context, shared *flyt.SharedStore, p, x any) (flyt.Action, error) {
	return n.c.post(ctx, shared, n.c.s.reg.ObserveAny(p), n.c.s.reg.ObserveAny(x))
}

type structFbNode struct{ structNode }

// a node that is not a pointer: a small struct used by value, with value receivers
type valNode struct{ c *leafCore }

func (n valNode) Prep(ctx context.Context, shared *flyt.SharedStore) (any, error) {
	return n.c.prep(ctx, shared)
}
func (n valNode) Exec(ctx context.Context, p any) (any, error) {
	v, _, err := n.c.exec(ctx, n.c.s.reg.ObserveAny(p))
	return v, err
}
func (n valNode) Post(ctx context.Context, shared *flyt.SharedStore, p, x any) (flyt.Action, error) {
	return n.c.post(ctx, shared, n.c.s.reg.ObserveAny(p), n.c.s.reg.ObserveAny(x))
}

// struct nodes that embed *flyt.BaseNode but answer the retry settings themselves: the embedded settings are a decoy
type structOvNode struct {
	structNode
	n int
	w time.Duration
}

func (n *structOvNode) GetMaxRetries() int     { return n.n }
func (n *structOvNode) GetWait() time.Duration { return n.w }

type structOvFbNode struct{ structOvNode }

// a struct node whose BaseNode was not made by NewBaseNode: a zero value to which the options were applied afterwards
func newZeroBase(n int, w time.Duration) *flyt.BaseNode {
	b := &flyt.BaseNode{}
	flyt.WithMaxRetries(n)(b)
	flyt.WithWait(w)(b)
	return b
}

func (n *structOvFbNode) ExecFallback(p any, err error) (any, error) { return n.c.fallback(p, err) }

func (n *structFbNode) ExecFallback(p any, err error) (any, error) { return n.c.fallback(p, err) }

// stateless zero-size node types: all pointers to them share one address, only the dynamic type tells them apart
var zsCores [8]*leafCore

type zs0 struct{}
type zs1 struct{}
type zs2 struct{}
type zs3 struct{}
type zs4 struct{}
type zs5 struct{}
type zs6 struct{}
type zs7 struct{}

func zsPrep(ctx context.Context, k int, sh *flyt.SharedStore) (any, error) {
	return zsCores[k].prep(ctx, sh)
}
func zsExec(ctx context.Context, k int, p any) (any, error) {
	c := zsCores[k]
	v, _, err := c.exec(ctx, c.s.reg.ObserveAny(p))
	return v, err
}
func zsPost(ctx context.Context, k int, sh *flyt.SharedStore, p, x any) (flyt.Action, error) {
	c := zsCores[k]
	return c.post(ctx, sh, c.s.reg.ObserveAny(p), c.s.reg.ObserveAny(x))
}

func (*zs0) Prep(ctx context.Context, s *flyt.SharedStore) (any, error) { return zsPrep(ctx, 0, s) }
func (*zs0) Exec(ctx context.Context, p any) (any, error)               { return zsExec(ctx, 0, p) }
func (*zs0) Post(ctx context.Context, s *flyt.SharedStore, p, x any) (flyt.Action, error) {
	return zsPost(ctx, 0, s, p, x)
}
func (*zs1) Prep(ctx context.Context, s *flyt.SharedStore) (any, error) { return zsPrep(ctx, 1, s) }
func (*zs1) Exec(ctx context.Context, p any) (any, error)               { return zsExec(ctx, 1, p) }
func (*zs1) Post(ctx context.Context, s *flyt.SharedStore, p, x any) (flyt.Action, error) {
	return zsPost(ctx, 1, s, p, x)
}
func (*zs2) Prep(ctx context.Context, s *flyt.SharedStore) (any, error) { return zsPrep(ctx, 2, s) }
func (*zs2) Exec(ctx context.Context, p any) (any, error)               { return zsExec(ctx, 2, p) }
func (*zs2) Post(ctx context.Context, s *flyt.SharedStore, p, x any) (flyt.Action, error) {
	return zsPost(ctx, 2, s, p, x)
}
func (*zs3) Prep(ctx context.Context, s *flyt.SharedStore) (any, error) { return zsPrep(ctx, 3, s) }
func (*zs3) Exec(ctx context.Context, p any) (any, error)               { return zsExec(ctx, 3, p) }
func (*zs3) Post(ctx context.Context, s *flyt.SharedStore, p, x any) (flyt.Action, error) {
	return zsPost(ctx, 3, s, p, x)
}
func (*zs4) Prep(ctx context.Context, s *flyt.SharedStore) (any, error) { return zsPrep(ctx, 4, s) }
func (*zs4) Exec(ctx context.Context, p any) (any, error)               { return zsExec(ctx, 4, p) }
func (*zs4) Post(ctx context.Context, s *flyt.SharedStore, p, x any) (flyt.Action, error) {
	return zsPost(ctx, 4, s, p, x)
}
func (*zs5) Prep(ctx context.Context, s *flyt.SharedStore) (any, error) { return zsPrep(ctx, 5, s) }
func (*zs5) Exec(ctx context.Context, p any) (any, error)               { return zsExec(ctx, 5, p) }
func (*zs5) Post(ctx context.Context, s *flyt.SharedStore, p, x any) (flyt.Action, error) {
	return zsPost(ctx, 5, s, p, x)
}
func (*zs6) Prep(ctx context.Context, s *flyt.SharedStore) (any, error) { return zsPrep(ctx, 6, s) }
func (*zs6) Exec(ctx context.Context, p any) (any, error)               { return zsExec(ctx, 6, p) }
func (*zs6) Post(ctx context.Context, s *flyt.SharedStore, p, x any) (flyt.Action, error) {
	return zsPost(ctx, 6, s, p, x)
}
func (*zs7) Prep(ctx context.Context, s *flyt.SharedStore) (any, error) { return zsPrep(ctx, 7, s) }
func (*zs7) Exec(ctx context.Context, p any) (any, error)               { return zsExec(ctx, 7, p) }
func (*zs7) Post(ctx context.Context, s *flyt.SharedStore, p, x any) (flyt.Action, error) {
	return zsPost(ctx, 7, s, p, x)
}

// the same by value: stateless nodes whose value is the zero value of their type
type zv0 struct{}
type zv1 struct{}
type zv2 struct{}
type zv3 struct{}

func (zv0) Prep(ctx context.Context, s *flyt.SharedStore) (any, error) { return zsPrep(ctx, 0, s) }
func (zv0) Exec(ctx context.Context, p any) (any, error)               { return zsExec(ctx, 0, p) }
func (zv0) Post(ctx context.Context, s *flyt.SharedStore, p, x any) (flyt.Action, error) {
	return zsPost(ctx, 0, s, p, x)
}
func (zv1) Prep(ctx context.Context, s *flyt.SharedStore) (any, error) { return zsPrep(ctx, 1, s) }
func (zv1) Exec(ctx context.Context, p any) (any, error)               { return zsExec(ctx, 1, p) }
func (zv1) Post(ctx context.Context, s *flyt.SharedStore, p, x any) (flyt.Action, error) {
	return zsPost(ctx, 1, s, p, x)
}
func (zv2) Prep(ctx context.Context, s *flyt.SharedStore) (any, error) { return zsPrep(ctx, 2, s) }
func (zv2) Exec(ctx context.Context, p any) (any, error)               { return zsExec(ctx, 2, p) }
func (zv2) Post(ctx context.Context, s *flyt.SharedStore, p, x any) (flyt.Action, error) {
	return zsPost(ctx, 2, s, p, x)
}
func (zv3) Prep(ctx context.Context, s *flyt.SharedStore) (any, error) { return zsPrep(ctx, 3, s) }
func (zv3) Exec(ctx context.Context, p any) (any, error)               { return zsExec(ctx, 3, p) }
func (zv3) Post(ctx context.Context, s *flyt.SharedStore, p, x any) (flyt.Action, error) {
	return zsPost(ctx, 3, s, p, x)
}

func newZeroVal(k int, c *leafCore) flyt.Node {
	zsCores[k] = c
	switch k {
	case 0:
		return zv0{}
	case 1:
		return zv1{}
	case 2:
		return zv2{}
	}
	return zv3{}
}

func newZeroSize(k int, c *leafCore) flyt.Node {
	zsCores[k] = c
	switch k {
	case 0:
		return new(zs0)
	case 1:
		return new(zs1)
	case 2:
		return new(zs2)
	case 3:
		return new(zs3)
	case 4:
		return new(zs4)
	case 5:
		return new(zs5)
	case 6:
		return new(zs6)
	}
	return new(zs7)
}

// plain implementation of flyt.Node only
type plainNode struct{ c *leafCore }

func (n *plainNode) Prep(ctx context.Context, shared *flyt.SharedStore) (any, error) {
	return n.c.prep(ctx, shared)
}
func (n *plainNode) Exec(ctx context.Context, p any) (any, error) {
	v, _, err := n.c.exec(ctx, n.c.s.reg.ObserveAny(p))
	return v, err
}
func (n *plainNode) Post(ctx context.Context, shared *flyt.SharedStore, p, x any) (flyt.Action, error) {
	return n.c.post(ctx, shared, n.c.s.reg.ObserveAny(p), n.c.s.reg.ObserveAny(x))
}

type plainFbNode struct{ plainNode }

func (n *plainFbNode) ExecFallback(p any, err error) (any, error) { return n.c.fallback(p, err) }

type plainRetryNode struct {
	plainNode
	n int
	w time.Duration
}

func (n *plainRetryNode) GetMaxRetries() int     { return n.n }
func (n *plainRetryNode) GetWait() time.Duration { return n.w }

type plainRetryFbNode struct{ plainRetryNode }

func (n *plainRetryFbNode) ExecFallback(p any, err error) (any, error) { return n.c.fallback(p, err) }

// function-style node, option form or builder form, any mix of Result/Any styles
func buildFuncNode(c *leafCore, nc NodeCfg, builderForm bool) flyt.Node {
	reg := c.s.reg
	wait := time.Duration(nc.W) * time.Millisecond
	prepR := func(ctx context.Context, shared *flyt.SharedStore) (flyt.Result, error) {
		v, err := c.prep(ctx, shared)
		if err != nil {
			return flyt.Result{}, err
		}
		if v == nil && c.s.cfg.GenMode != "" && (c.id+c.s.cfg.Variant)%2 == 0 {
			// a nil value handed over as an error Result (nothing could be loaded, say): its value is nil all the same
			return flyt.NewErrorResult(errors.New("nothing to prepare")), nil
		}
		return flyt.NewResult(v), nil
	}
	prepA := func(ctx context.Context, shared *flyt.SharedStore) (any, error) { return c.prep(ctx, shared) }
	execR := func(ctx context.Context, p flyt.Result) (flyt.Result, error) {
		v, eres, err := c.exec(ctx, reg.ObserveResult(p))
		if err != nil {
			if (c.s.att[c.id]+c.id)%2 == 0 {
				// a failed attempt may report its error both ways: the error return value is what counts
				return flyt.NewErrorResult(err), err
			}
			return flyt.Result{}, err
		}
		if eres != nil {
			return flyt.NewErrorResult(eres), nil
		}
		return flyt.NewResult(v), nil
	}
	execA := func(ctx context.Context, p any) (any, error) {
		v, _, err := c.exec(ctx, reg.ObserveAny(p))
		return v, err
	}
	postR := func(ctx context.Context, shared *flyt.SharedStore, p, x flyt.Result) (flyt.Action, error) {
		return c.post(ctx, shared, reg.ObserveResult(p), reg.ObserveResult(x))
	}
	postA := func(ctx context.Context, shared *flyt.SharedStore, p, x any) (flyt.Action, error) {
		return c.post(ctx, shared, reg.ObserveAny(p), reg.ObserveAny(x))
	}
	fb := func(p any, err error) (any, error) { return c.fallback(p, err) }

	// batch settings on an ordinary function node are inert: it must keep the ordinary node lifecycle
	inertBatchOpts := c.id%2 == 0
	if !builderForm {
		opts := []any{flyt.WithMaxRetries(nc.N), flyt.WithWait(wait)}
		if inertBatchOpts {
			opts = append(opts, flyt.WithBatchConcurrency(3), flyt.WithBatchErrorHandling(false))
		}
		if nc.Sty[0] == "r" {
			opts = append(opts, flyt.WithPrepFunc(prepR))
		} else {
			opts = append(opts, flyt.WithPrepFuncAny(prepA))
		}
		if nc.Sty[1] == "r" {
			opts = append(opts, flyt.WithExecFunc(execR))
		} else {
			opts = append(opts, flyt.WithExecFuncAny(execA))
		}
		if nc.Sty[2] == "r" {
			opts = append(opts, flyt.WithPostFunc(postR))
		} else {
			opts = append(opts, flyt.WithPostFuncAny(postA))
		}
		if nc.Fb {
			opts = append(opts, flyt.WithExecFallbackFunc(fb))
		}
		return flyt.NewNode(opts...)
	}
	b := flyt.NewNode().WithMaxRetries(nc.N).WithWait(wait)
	if inertBatchOpts {
		b = b.WithBatchConcurrency(2).WithBatchErrorHandling(false)
	}
	if nc.Sty[0] == "r" {
		b = b.WithPrepFunc(prepR)
	} else {
		b = b.WithPrepFuncAny(prepA)
	}
	if nc.Sty[1] == "r" {
		b = b.WithExecFunc(execR)
	} else {
		b = b.WithExecFuncAny(execA)
	}
	if nc.Sty[2] == "r" {
		b = b.WithPostFunc(postR)
	} else {
		b = b.WithPostFuncAny(postA)
	}
	if nc.Fb {
		b = b.WithExecFallbackFunc(fb)
	}
	return b
}

func (s *scnRun) buildLeaf(id int) flyt.Node {
	nc := s.cfg.Nodes[id-1].real()
	c := &leafCore{s: s, id: id}
	wait := time.Duration(nc.W) * time.Millisecond
	switch nc.Gk {
	case "struct":
		return &structNode{BaseNode: flyt.NewBaseNode(flyt.WithMaxRetries(nc.N), flyt.WithWait(wait)), c: c}
	case "structfb":
		return &structFbNode{structNode{BaseNode: flyt.NewBaseNode(flyt.WithMaxRetries(nc.N), flyt.WithWait(wait)), c: c}}
	case "structzero":
		return &structNode{BaseNode: newZeroBase(nc.N, wait), c: c}
	case "structov":
		return &structOvNode{structNode: structNode{BaseNode: flyt.NewBaseNode(flyt.WithMaxRetries(nc.N%3+1), flyt.WithWait(0)), c: c}, n: nc.N, w: wait}
	case "structovfb":
		return &structOvFbNode{structOvNode{structNode: structNode{BaseNode: flyt.NewBaseNode(flyt.WithMaxRetries(nc.N%3+1), flyt.WithWait(0)), c: c}, n: nc.N, w: wait}}
	case "plain":
		return &plainNode{c: c}
	case "zerosize":
		return newZeroSize(id-1, c)
	case "zeroval":
		return newZeroVal(id-1, c)
	case "structsh":
		// several nodes built on ONE BaseNode object (the nodes with the same settings share it): a BaseNode is
		// configuration, the node is the value that embeds it
		key := [2]int{nc.N, nc.W}
		if s.sharedBase == nil {
			s.sharedBase = map[[2]int]*flyt.BaseNode{}
		}
		if s.sharedBase[key] == nil {
			s.sharedBase[key] = flyt.NewBaseNode(flyt.WithMaxRetries(nc.N), flyt.WithWait(wait))
		}
		return &structNode{BaseNode: s.sharedBase[key], c: c}
	case "valnode":
		return valNode{c: c}
	case "plainfb":
		return &plainFbNode{plainNode{c: c}}
	case "plainretry":
		return &plainRetryNode{plainNode: plainNode{c: c}, n: nc.N, w: wait}
	case "plainretryfb":
		return &plainRetryFbNode{plainRetryNode{plainNode: plainNode{c: c}, n: nc.N, w: wait}}
	case "batchleaf", "batchleafnode":
		// a one-item sequential batch node used as an ordinary step of a flow
		b := flyt.NewBatchNode().WithMaxRetries(nc.N).WithWait(wait).
			WithPrepFunc(func(ctx context.Context, shared *flyt.SharedStore) ([]flyt.Result, error) {
				v, err := c.prep(ctx, shared)
				if err != nil {
					return nil, err
				}
				return []flyt.Result{flyt.NewResult(v)}, nil
			}).
			WithExecFunc(func(ctx context.Context, p flyt.Result) (flyt.Result, error) {
				v, _, err := c.exec(ctx, s.reg.ObserveResult(p))
				if err != nil {
					return flyt.Result{}, err
				}
				return flyt.NewResult(v), nil
			}).
			WithPostFunc(func(ctx context.Context, shared *flyt.SharedStore, items, results []flyt.Result) (flyt.Action, error) {
				var p, x flyt.Result
				if len(items) > 0 {
					p = items[0]
				}
				if len(results) > 0 {
					x = results[0]
				}
				return c.post(ctx, shared, s.reg.ObserveResult(p), s.reg.ObserveResult(x))
			})
		if nc.Gk == "batchleafnode" {
			return b.BatchNode
		}
		return b
	case "funcopt":
		return buildFuncNode(c, nc, false)
	case "funcbld":
		return buildFuncNode(c, nc, true)
	}
	fatal("unknown go kind %q for node %d", nc.Gk, id)
	return nil
}

func (s *scnRun) node(id int, depth int) flyt.Node {
	if id == 0 {
		return nil
	}
	if n, ok := s.nodes[id]; ok {
		return n
	}
	if depth > len(s.cfg.Nodes) {
		fatal("cyclic flow start chain at node %d", id)
	}
	nc := s.cfg.Nodes[id-1]
	var n flyt.Node
	if nc.Kind == "flow" {
		var start flyt.Node
		if nc.Start != 0 {
			start = s.node(nc.Start, depth+1)
		}
		f := flyt.NewFlow(start)
		if nc.N != 1 {
			// a flow is a retryable node: its own budget re-executes the whole sub-flow (and a budget below one skips it)
			flyt.WithMaxRetries(nc.N)(f.BaseNode)
		}
		n = f
	} else {
		n = s.buildLeaf(id)
	}
	s.nodes[id] = n
	return n
}

// assignKinds picks the concrete Go kind of every node from the variant number
func assignKinds(c *EngineCfg) {
	for i := range c.Nodes {
		if c.Nodes[i].Gk != "" {
			continue
		}
		ks := goKinds(c.Nodes[i])
		// (not a fixed stride: neighbouring nodes must be able to get the same unusual kind, e.g. two zero-size
		// nodes, which share one address, connected in one flow)
		c.Nodes[i].Gk = ks[rand.New(rand.NewSource(int64(c.Variant)*7919+int64(i)*104729)).Intn(len(ks))]
		if c.Nodes[i].Gk == "zerosize" && i >= 8 {
			c.Nodes[i].Gk = "plain" // only eight distinct zero-size types exist
		}
		if c.Nodes[i].Gk == "zeroval" && i >= 4 {
			c.Nodes[i].Gk = "valnode" // ... and four that are used by value
		}
	}
}

// runEngineScenario executes one scenario on the real library and returns its history.
// flowRunAgrees re-executes the scenario through (*Flow).Run and compares everything observable
// with the execution through flyt.Run (Flow.Run returns no action, so the action is not compared).
func flowRunAgrees(cfg EngineCfg, mk func() Script, ref []Event) bool {
	if len(cfg.Nodes) == 0 || cfg.Nodes[cfg.Top-1].Kind != "flow" {
		return true
	}
	evs, _ := runEngineScenarioOpt(cfg, mk(), true)
	if len(evs) != len(ref) {
		return false
	}
	for i := range evs {
		a, b := evs[i], ref[i]
		if a["ev"] == "runret" {
			if a["iserr"] != b["iserr"] || a["ctxerr"] != b["ctxerr"] || fmt.Sprint(a["errs"]) != fmt.Sprint(b["errs"]) {
				return false
			}
			continue
		}
		if fmt.Sprint(a) != fmt.Sprint(b) {
			return false
		}
	}
	return true
}

func (s *scnRun) doConnect(op ConnOp) {
	f, ok := s.nodes[op.Flow].(*flyt.Flow)
	if !ok {
		fatal("connect on non-flow node %d", op.Flow)
	}
	f.Connect(s.nodes[op.From], actName(op.Act), s.node(op.To, 0))
	s.log(Event{"ev": "connect", "flow": op.Flow, "from": op.From, "act": op.Act, "to": op.To})
}

// nestedRunInvisible re-executes the scenario with a run of the same node object nested into one of its exec callbacks
// (a failing attempt of the first run if there is one) and compares the scenario's events with the reference.
func nestedRunInvisible(cfg EngineCfg, mk func() Script, ref []Event) bool {
	var cand, failing []nestSpec
	visits := map[int]int{}
	runs := 0
	for _, e := range ref {
		switch e["ev"] {
		case "runcall":
			runs++
		case "prep":
			visits[e["node"].(int)]++
		case "exec":
			id := e["node"].(int)
			if runs != 1 || id < 1 || id > len(cfg.Nodes) || cfg.Nodes[id-1].Kind != "leaf" {
				continue
			}
			n := nestSpec{id, visits[id], e["k"].(int)}
			cand = append(cand, n)
			if e["out"] == "err" {
				failing = append(failing, n)
			}
		}
	}
	if len(cand) == 0 {
		return true
	}
	pick := cand[len(ref)%len(cand)]
	if len(failing) > 0 {
		pick = failing[len(ref)%len(failing)]
	}
	evs, s := runEngineScenarioNest(cfg, mk(), &pick)
	if s.nestBad != "" || !s.nestDone || len(evs) != len(ref) {
		return false
	}
	for i := range evs {
		if fmt.Sprint(evs[i]) != fmt.Sprint(ref[i]) {
			return false
		}
	}
	return true
}

func runEngineScenarioNest(cfg EngineCfg, script Script, nest *nestSpec) ([]Event, *scnRun) {
	return runEngineScenarioFull(cfg, script, false, nest)
}

func runEngineScenario(cfg EngineCfg, script Script) ([]Event, *scnRun) {
	return runEngineScenarioOpt(cfg, script, false)
}

func runEngineScenarioOpt(cfg EngineCfg, script Script, viaFlowRun bool) ([]Event, *scnRun) {
	return runEngineScenarioFull(cfg, script, viaFlowRun, nil)
}

func runEngineScenarioFull(cfg EngineCfg, script Script, viaFlowRun bool, nest *nestSpec) ([]Event, *scnRun) {
	assignKinds(&cfg)
	reg0 := NewRegistry()
	reg0.RunCtxKind = cfg.CtxKind
	s := &scnRun{nest: nest, flowRun: viaFlowRun, cfg: cfg, reg: reg0, script: script, store: flyt.NewSharedStore(), tok: 1,
		nodes: map[int]flyt.Node{}, maxCb: 400}
	if cfg.GenMode == "longloop" {
		s.maxCb = 20000 // a legitimately long run
	}
	if cfg.GenMode == "hugeloop" || cfg.GenMode == "longchain" {
		var rounds int
		fmt.Sscanf(cfg.GenSeed, "%d", &rounds)
		s.maxCb = 4*rounds + 100
		s.compact = &longFacts{Rounds: rounds, InOrder: true, Store: true, next: "prep", EndAct: 3}
		if cfg.GenMode == "longchain" {
			s.compact.Chain, s.compact.EndAct = true, 1
		}
	}
	for id := range cfg.Nodes {
		s.node(id+1, 0)
	}
	var later []func()
	for r := 1; r <= cfg.Runs; r++ {
		s.run = r
		s.visits = map[int]int{}
		s.att = map[int]int{}
		if r-1 < len(cfg.Conns) {
			ops := cfg.Conns[r-1]
			pre := len(ops)
			if cfg.Dyn && r-1 < len(cfg.Pre) && cfg.Pre[r-1] < pre {
				pre = cfg.Pre[r-1] // the others are made from inside post callbacks while the flow runs
			}
			for _, op := range ops[:pre] {
				s.doConnect(op)
			}
			s.pending = append([]ConnOp{}, ops[pre:]...)
		}
		var ctx context.Context
		switch cfg.CtxKind {
		case "deadline":
			mc := newManualDeadlineCtx()
			ctx, s.cancel = mc, mc.expire
		case "cause":
			// cancelled with a cause: the library must still report the context's error (ctx.Err())
			c2, cancel := context.WithCancelCause(context.Background())
			ctx, s.cancel = c2, func() { cancel(errors.New("service shutting down")) }
		default:
			c2, cancel := context.WithCancel(context.Background())
			ctx, s.cancel = c2, cancel
		}
		s.ctx = ctx
		s.seenCtx = nil
		ctx0 := r-1 < len(cfg.Ctx0) && cfg.Ctx0[r-1]
		if ctx0 {
			s.cancel()
		}
		s.log(Event{"ev": "runcall", "node": cfg.Top, "ctxdone": ctx.Err() != nil})
		var action flyt.Action
		var err error
		panicked := false
		finished := make(chan struct{})
		go func() {
			defer close(finished)
			defer func() {
				if p := recover(); p != nil {
					panicked = true
					if isScriptedPanic(p) {
						s.log(Event{"ev": "panic"}) // the callback's own panic arrived at the caller of Run, as it must
					} else {
						s.log(Event{"ev": "panic", "msg": fmt.Sprint(p)})
					}
				}
			}()
			if f, isFlow := s.nodes[cfg.Top].(*flyt.Flow); isFlow && s.flowRun {
				err = f.Run(ctx, s.store)
				if err == nil {
					action = "?" // Flow.Run does not report the action
				}
			} else {
				action, err = flyt.Run(ctx, s.nodes[cfg.Top], s.store)
			}
		}()
		if s.compact != nil {
			// a legitimately long run: it is left alone as long as it keeps calling back (a loaded machine makes it slow, not
			// wrong); only a run that has stopped making progress is handed to the watchdog below
			for waited := 0; waited < 60; waited++ {
				before := s.callbacksSoFar()
				select {
				case <-finished:
				case <-time.After(3 * time.Second):
				}
				select {
				case <-finished:
					waited = 60
				default:
					if s.callbacksSoFar() == before {
						waited = 60
					}
				}
			}
		}
		select {
		case <-finished:
		case <-time.After(6 * time.Second):
			// a run that spins without ever calling back (e.g. looping over a flow that fails silently)
			if cfg.zeroBudget() {
				s.log(Event{"ev": "spin"}) // a flow with a budget below one on a cycle: stopped by cancelling its context
			}
			s.cancel()
			select {
			case <-finished:
			case <-time.After(3 * time.Second):
				s.log(Event{"ev": "hang"})
				hungScenarios++
				s.mu.Lock()
				evs := append([]Event{}, s.events...)
				s.mu.Unlock()
				return evs, s
			}
		}
		if s.compact != nil {
			l := s.compact
			s.log(Event{"ev": "longrun", "rounds": l.Rounds, "preps": l.Preps, "execs": l.Execs, "posts": l.Posts, "fbs": l.Fbs,
				"inorder": l.InOrder, "sok": l.Store, "endact": l.EndAct})
		}
		if !panicked {
			errs := []any{}
			for _, t := range s.reg.MatchAll(err) {
				errs = append(errs, t)
			}
			s.log(Event{"ev": "runret", "act": actTok(action), "iserr": err != nil, "errs": errs, "ctxerr": isCtxErr(err, ctx)})
		}
		if cfg.Variant%2 == 1 && r < cfg.Runs {
			// the context of a finished run stays alive while the same objects run again (a server's base context): what a
			// later run observes is ITS context, not one an earlier run happened to leave behind
			later = append(later, s.cancel)
		} else {
			s.cancel()
		}
	}
	for _, c := range later {
		c()
	}
	return s.events, s
}
