package main

// Timing family (C20): retry waits measured with the monotonic clock inside the callbacks.

import (
	"context"
	"errors"
	"fmt"
	"math/rand"
	"sync"
	"time"

	"github.com/mark3labs/flyt"
)

type TimingCfg struct {
	W           int    // wait in ms
	N           int    // budget
	Kind        string // struct | func | batch
	Items       int    // batch: number of items (0 for node runs)
	C           int    // batch concurrency
	Script      []bool // per attempt: succeeds?
	Upper       bool   // upper-bound clauses apply (long waits)
	CancelAfter int    // cancel 20ms after the exit of this attempt (0: never)
	Fb          bool   // the node has a (succeeding) fallback
	Stop        bool   // batch: stop-on-error mode
	Dur2        int    // batch: failing attempts of item 2 take this long (ms)
	Dur         int    // every failing attempt takes this long (ms): the wait counts from its END
	Wus         int    // > 0: the retry wait in microseconds (waits below a millisecond), W is then 0
	ErrKind     int    // 4: an error that carries a RetryAfter() hint shorter than the configured wait; what a failing attempt returns: 0 plain, 1 wraps context.DeadlineExceeded, 2 wraps context.Canceled, 3 errors.Join
	DeadlineMs  int    // > 0: the run's context carries a real deadline this long after the start (instead of cancel())
	Cause       bool   // the context is cancelled with a cause (context.WithCancelCause)
	PrepW       bool   // batch: the node is built without a wait; its own prep callback sets it
}

func (c TimingCfg) toJSON() map[string]any {
	sc := []any{}
	for _, b := range c.Script {
		sc = append(sc, b)
	}
	return map[string]any{"w": c.W, "N": c.N, "kind": c.Kind, "n": c.Items, "c": c.C, "script": sc, "upper": c.Upper, "cancelafter": c.CancelAfter, "dur": c.Dur, "fb": c.Fb, "stop": c.Stop, "dur2": c.Dur2,
		"wus": c.Wus, "errkind": c.ErrKind, "deadlinems": c.DeadlineMs, "cause": c.Cause, "prepw": c.PrepW}
}

func parseTimingCfg(m map[string]any) TimingCfg {
	c := TimingCfg{W: asInt(m["w"]), N: asInt(m["N"]), Kind: asStr(m["kind"]), Items: asInt(m["n"]), C: asInt(m["c"]), Upper: asBool(m["upper"]), CancelAfter: asInt(m["cancelafter"]), Dur: asInt(m["dur"]), Fb: asBool(m["fb"]), Stop: asBool(m["stop"]), Dur2: asInt(m["dur2"]),
		Wus: asInt(m["wus"]), ErrKind: asInt(m["errkind"]), DeadlineMs: asInt(m["deadlinems"]), Cause: asBool(m["cause"]), PrepW: asBool(m["prepw"])}
	for _, b := range asList(m["script"]) {
		c.Script = append(c.Script, asBool(b))
	}
	return c
}

type timedStruct struct {
	*flyt.BaseNode
	t *timingRun
}

func (n *timedStruct) Prep(ctx context.Context, s *flyt.SharedStore) (any, error) { return n.t.prep() }
func (n *timedStruct) Exec(ctx context.Context, p any) (any, error)               { return n.t.exec(0) }
func (n *timedStruct) Post(ctx context.Context, s *flyt.SharedStore, p, x any) (flyt.Action, error) {
	n.t.mark("post", 0)
	return flyt.DefaultAction, nil
}

type timedStructFb struct{ timedStruct }

// a struct node that embeds *flyt.BaseNode (whose own wait is zero) and answers GetWait itself
type timedStructOv struct {
	timedStruct
	w time.Duration
}

func (n *timedStructOv) GetWait() time.Duration { return n.w }

// a struct node that embeds *flyt.BaseNode, keeps the WAIT there (flyt.WithWait) and answers only GetMaxRetries itself
// (the embedded budget stays at its default)
type timedStructOvN struct {
	timedStruct
	n int
}

func (n *timedStructOvN) GetMaxRetries() int { return n.n }

func (n *timedStructFb) ExecFallback(p any, err error) (any, error) {
	n.t.mark("fb", 0)
	return "fallback", nil
}

type timingRun struct {
	cfg    TimingCfg
	start  time.Time
	mu     sync.Mutex
	events []Event
	att    map[int]int
	cancel func()
}

func (t *timingRun) us() int { return int(time.Since(t.start) / time.Microsecond) }
func (t *timingRun) log(e Event) {
	t.mu.Lock()
	t.events = append(t.events, e)
	t.mu.Unlock()
}
func (t *timingRun) mark(ev string, p int) { t.log(Event{"ev": ev, "p": p, "t0": t.us()}) }
func (t *timingRun) prep() (any, error) {
	t.log(Event{"ev": "prep", "t1": t.us()})
	return "p", nil
}
func (t *timingRun) exec(p int) (any, error) {
	t0 := t.us()
	t.mu.Lock()
	t.att[p]++
	k := t.att[p]
	t.mu.Unlock()
	ok := k-1 < len(t.cfg.Script) && t.cfg.Script[k-1]
	if !ok && t.cfg.Dur > 0 {
		time.Sleep(time.Duration(t.cfg.Dur) * time.Millisecond)
	}
	if !ok && p == 2 && t.cfg.Dur2 > 0 {
		time.Sleep(time.Duration(t.cfg.Dur2) * time.Millisecond)
	}
	if t.cfg.CancelAfter == k && t.cfg.DeadlineMs == 0 {
		time.AfterFunc(20*time.Millisecond, func() {
			t.log(Event{"ev": "cancel", "t": t.us()})
			t.cancel()
		})
	}
	t1 := t.us()
	t.log(Event{"ev": "exec", "p": p, "k": k, "t0": t0, "t1": t1, "ok": ok})
	if ok {
		return "x", nil
	}
	// the error of a failed attempt is the callback's own business: also when it looks like a context error
	// (a call with its own timeout inside the attempt) while the run's context is alive
	switch t.cfg.ErrKind {
	case 1:
		return nil, fmt.Errorf("downstream call: %w", context.DeadlineExceeded)
	case 2:
		return nil, fmt.Errorf("downstream call: %w", context.Canceled)
	case 3:
		return nil, errors.Join(errors.New("attempt failed"), errors.New("and its clean-up too"))
	case 4:
		return nil, fmt.Errorf("downstream says: %w", retryAfterErr{})
	}
	return nil, errors.New("attempt failed")
}

// an error with advice of its own about when to retry (as HTTP clients return): the configured wait is the node's
type retryAfterErr struct{}

func (retryAfterErr) Error() string             { return "busy, retry after 1ms" }
func (retryAfterErr) RetryAfter() time.Duration { return time.Millisecond }

func runTimingScenario(cfg TimingCfg) []Event {
	t := &timingRun{cfg: cfg, att: map[int]int{}}
	ctx, cancel := context.WithCancel(context.Background())
	t.start = time.Now()
	if cfg.DeadlineMs > 0 {
		ctx, cancel = context.WithDeadline(context.Background(), t.start.Add(time.Duration(cfg.DeadlineMs)*time.Millisecond))
	} else if cfg.Cause {
		c2, cancelCause := context.WithCancelCause(context.Background())
		ctx, cancel = c2, func() { cancelCause(errors.New("service shutting down")) }
	}
	t.cancel = cancel
	defer cancel()
	wait := time.Duration(cfg.W) * time.Millisecond
	if cfg.Wus > 0 {
		wait = time.Duration(cfg.Wus) * time.Microsecond
	}
	var node flyt.Node
	switch cfg.Kind {
	case "struct":
		ts := timedStruct{BaseNode: flyt.NewBaseNode(flyt.WithMaxRetries(cfg.N), flyt.WithWait(wait)), t: t}
		if cfg.Fb {
			node = &timedStructFb{ts}
		} else {
			node = &ts
		}
	case "structovn":
		node = &timedStructOvN{timedStruct{BaseNode: flyt.NewBaseNode(flyt.WithWait(wait)), t: t}, cfg.N}
	case "structov":
		node = &timedStructOv{timedStruct{BaseNode: flyt.NewBaseNode(flyt.WithMaxRetries(cfg.N)), t: t}, wait}
	case "func":
		fnode := flyt.NewNode()
		if cfg.Fb {
			fnode = fnode.WithExecFallbackFunc(func(p any, err error) (any, error) { t.mark("fb", 0); return "fallback", nil })
		}
		node = fnode.WithMaxRetries(cfg.N).WithWait(wait).
			WithPrepFuncAny(func(ctx context.Context, s *flyt.SharedStore) (any, error) { return t.prep() }).
			WithExecFuncAny(func(ctx context.Context, p any) (any, error) { return t.exec(0) }).
			WithPostFuncAny(func(ctx context.Context, s *flyt.SharedStore, p, x any) (flyt.Action, error) {
				t.mark("post", 0)
				return flyt.DefaultAction, nil
			})
	case "batch":
		w0 := wait
		if cfg.PrepW {
			w0 = 0
		}
		var bb *flyt.BatchNodeBuilder
		bb = flyt.NewBatchNode().WithMaxRetries(cfg.N).WithWait(w0).WithBatchConcurrency(cfg.C).WithBatchErrorHandling(!cfg.Stop)
		node = bb.
			WithPrepFunc(func(ctx context.Context, s *flyt.SharedStore) ([]flyt.Result, error) {
				if cfg.PrepW {
					bb.WithWait(wait) // (a back-off read from the store, say)
				}
				t.prep()
				items := make([]flyt.Result, cfg.Items)
				for i := range items {
					items[i] = flyt.NewResult(i + 1)
				}
				return items, nil
			}).
			WithExecFuncAny(func(ctx context.Context, p any) (any, error) { return t.exec(p.(int)) }).
			WithPostFunc(func(ctx context.Context, s *flyt.SharedStore, a, b []flyt.Result) (flyt.Action, error) {
				// the slots of the last item are ready when post starts; what each slot holds: 0 a value, 1 an error
				// matching the context's error, 2 another error
				kinds := []any{}
				for _, r := range b {
					switch {
					case !r.IsError():
						kinds = append(kinds, 0)
					case ctx.Err() != nil && errors.Is(r.Error(), ctx.Err()):
						kinds = append(kinds, 1)
					default:
						kinds = append(kinds, 2)
					}
				}
				t.log(Event{"ev": "slot", "p": len(a), "t0": t.us(), "kinds": kinds})
				return flyt.DefaultAction, nil
			})
	}
	done := make(chan struct{})
	var err error
	go func() {
		defer close(done)
		_, err = flyt.Run(ctx, node, flyt.NewSharedStore())
	}()
	select {
	case <-done:
		tr := t.us()
		if cfg.DeadlineMs > 0 && ctx.Err() != nil {
			// the cancellation happened at the deadline instant (no event if the run was over before it)
			t.log(Event{"ev": "cancel", "t": cfg.DeadlineMs * 1000})
		}
		t.log(Event{"ev": "runret", "t": tr, "iserr": err != nil, "ctxerr": err != nil && ctx.Err() != nil && errors.Is(err, ctx.Err())})
	case <-time.After(30 * time.Second):
		t.log(Event{"ev": "hang", "t": t.us()})
	}
	t.mu.Lock()
	defer t.mu.Unlock()
	return append([]Event{}, t.events...)
}

func init() {
	families["timing"] = func(o *Out, scnFile string, seed int64, count int, modes string, opts map[string]string) {
		var cfgs []TimingCfg
		if rp := opts["replay"]; rp != "" {
			for _, line := range readLines(rp) {
				cfg := parseTimingCfg(asMap(line["cfg"]))
				o.WriteScenario(asInt(line["scn"]), "timing", asStr(line["src"]), cfg.toJSON(), nil, runTimingScenario(cfg))
			}
			return
		}
		r := rand.New(rand.NewSource(seed))
		kinds := []string{"struct", "func", "batch", "structov", "structovn"}
		// T1: short waits, every failure sequence
		for _, w := range []int{1, 5, 20, 50} {
			for n := 2; n <= 5; n++ {
				if count < 50 && (w == 50 && n > 3 || w == 20 && n > 4) {
					continue
				}
				for mask := 0; mask < 1<<uint(n); mask++ {
					if count < 50 && mask%3 != int(seed)%3 && mask != 0 {
						continue
					}
					sc := make([]bool, n)
					for i := range sc {
						sc[i] = mask&(1<<uint(i)) != 0
					}
					c := TimingCfg{W: w, N: n, Kind: kinds[r.Intn(5)], Script: sc, ErrKind: len(cfgs) % 5}
					if c.Kind == "batch" {
						c.Items, c.C = 1+r.Intn(3), r.Intn(3)
						c.PrepW = r.Intn(3) == 0
					}
					cfgs = append(cfgs, c)
				}
			}
		}
		// T1 with waits below a millisecond (a timer is a timer, whatever its length)
		for _, wus := range []int{250, 600, 999} {
			for _, k := range kinds {
				c := TimingCfg{Wus: wus, N: 4, Kind: k, Script: []bool{false, false, false, true}, ErrKind: len(cfgs) % 5}
				if k == "batch" {
					c.Items, c.C = 2, []int{0, 2}[wus%2]
				}
				cfgs = append(cfgs, c)
			}
		}
		// a context with a deadline that is comfortably far away (450 ms for a run that needs a little more than 100 ms, but less
		// than "the wait times the attempts left"): a deadline that has not expired changes nothing
		for _, k := range kinds {
			c := TimingCfg{W: 100, N: 6, Kind: k, Script: []bool{false, true}, DeadlineMs: 450}
			if k == "batch" {
				c.Items, c.C = 2, []int{0, 2}[len(cfgs)%2]
			}
			cfgs = append(cfgs, c)
		}
		// T1 again with slow failing attempts: the wait is measured from the END of the failed attempt
		for _, k := range kinds {
			for _, w := range []int{5, 20} {
				c := TimingCfg{W: w, N: 3, Kind: k, Script: []bool{false, false, true}, Dur: w + w/2, ErrKind: 1 + len(cfgs)%2}
				if k == "batch" {
					c.Items, c.C = 2, []int{0, 2}[w%2]
				}
				cfgs = append(cfgs, c)
			}
		}
		// stop-on-error batches: an item that exhausts its budget must not cut a sibling's retry wait short
		for _, w := range []int{20, 40} {
			cfgs = append(cfgs, TimingCfg{W: w, N: 2, Kind: "batch", Items: 2, C: 2, Script: []bool{false, false}, Stop: true, Dur2: w / 2})
			cfgs = append(cfgs, TimingCfg{W: w, N: 3, Kind: "batch", Items: 3, C: 3, Script: []bool{false, false, false}, Stop: true, Dur2: w / 2})
		}
		// T2: a long wait makes an unwanted wait before the first / after the last attempt visible
		for _, k := range kinds {
			for _, sc := range [][]bool{{false, true}, {false, false}, {true}} {
				c := TimingCfg{W: 1200, N: 2, Kind: k, Script: sc, Upper: true}
				if k == "batch" {
					c.Items, c.C = 2, 0
				}
				cfgs = append(cfgs, c)
			}
		}
		// T3: a one-hour wait cancelled 20 ms after the exit of the first attempt; a two-second wait
		// cancelled 20 ms after the exit of attempt 2 and 3 (the run must not sleep out the remainder)
		for _, k := range kinds {
			for n := 2; n <= 4; n++ {
				for ca := 1; ca < n && ca <= 3; ca++ {
					w := 2000
					if ca == 1 {
						w = 3600000
					}
					c := TimingCfg{W: w, N: n, Kind: k, Script: make([]bool, n), CancelAfter: ca}
					if k == "batch" {
						c.Items, c.C = 1+ca%2, []int{0, 2}[ca%2]
					}
					cfgs = append(cfgs, c)
					if ca <= 2 && n <= 3 {
						// the same cancellation arriving as the expiry of the context's deadline, 150 ms into the wait
						c.DeadlineMs = (ca-1)*w + 150
						cfgs = append(cfgs, c)
						// ... and as a cancellation with a cause
						c.DeadlineMs, c.Cause = 0, true
						cfgs = append(cfgs, c)
					}
				}
			}
		}
		// batches larger than workers plus queue: the feeding loop is still blocked submitting when the cancellation arrives
		// during the first items' one-hour wait - the run must end promptly all the same
		for _, cc := range []int{1, 2} {
			for _, extra := range []int{1, 4} {
				c := TimingCfg{W: 3600000, N: 2, Kind: "batch", Script: make([]bool, 2), CancelAfter: 1, Items: 3*cc + extra, C: cc}
				cfgs = append(cfgs, c)
				c.Cause = true
				cfgs = append(cfgs, c)
			}
		}
		// the same with a fallback that would succeed: a cancelled wait must not be "recovered" by it
		for _, k := range []string{"struct", "func"} {
			for _, spec := range [][2]int{{3600000, 1}, {2000, 2}} {
				cfgs = append(cfgs, TimingCfg{W: spec[0], N: 3, Kind: k, Script: make([]bool, 3), CancelAfter: spec[1], Fb: true})
			}
			// and without cancellation the fallback runs exactly after the N-th failure
			cfgs = append(cfgs, TimingCfg{W: 2, N: 3, Kind: k, Script: make([]bool, 3), Fb: true})
		}
		// run in parallel: the scenarios are independent and mostly sleep
		res := make([][]Event, len(cfgs))
		sem := make(chan struct{}, 24)
		var wg sync.WaitGroup
		for i := range cfgs {
			wg.Add(1)
			sem <- struct{}{}
			go func(i int) {
				defer wg.Done()
				defer func() { <-sem }()
				res[i] = runTimingScenario(cfgs[i])
			}(i)
		}
		wg.Wait()
		for i := range cfgs {
			o.WriteScenario(i+1, "timing", fmt.Sprintf("gen:w=%d", cfgs[i].W), cfgs[i].toJSON(), nil, res[i])
		}
	}
}
