package main

// A long-running store under delete churn (C13).
//
// One goroutine inserts and deletes tens of thousands of short-lived keys (a window of them stays resident) so that
// whatever the store amortises over many operations - growth, shrinking, compaction, caches - happens several times.
// Meanwhile every "owner" goroutine is the ONLY writer of its own three keys and logs every operation it performs on
// them with the store's answer.  In any linearization the operations on an owner's keys are exactly the owner's own,
// in program order; hence every owner log must be a correct SEQUENTIAL history of the map (StoreSem!Apply) - which is
// what TPStore judges (clause ownerSequential).  Owners advance in step with the churn so that their operations are
// spread over the whole run.

import (
	"math/rand"
	"runtime"
	"sync"
	"sync/atomic"

	"github.com/mark3labs/flyt"
)

func churnKey(i int) string { return keyName(100000 + i) }

func runStoreChurn(r *rand.Rand, owners, opsPer, churnOps, resident int) [][]Event {
	s := flyt.NewSharedStore()
	var progress atomic.Int64
	logs := make([][]Event, owners)
	progs := make([][]storeOp, owners)
	for g := 0; g < owners; g++ {
		base := 10 * (g + 1)
		for i := 0; i < opsPer; i++ {
			o := storeOp{Op: []string{"set", "set", "get", "get", "has", "delete", "merge", "merge", "getint", "getslice", "getslice"}[r.Intn(11)]}
			o.K = base + 1 + r.Intn(3)
			switch o.Op {
			case "set":
				o.V = randStoreValTok(r)
			case "merge":
				o.K = 0
				for k := base + 1; k <= base+3; k++ {
					if r.Intn(2) == 0 {
						o.M = append(o.M, [2]int{k, randStoreValTok(r)})
					}
				}
			case "getint":
				if r.Intn(2) == 0 {
					o.D = 9
				}
			}
			progs[g] = append(progs[g], o)
		}
	}
	start := make(chan struct{})
	var wg sync.WaitGroup
	for g := 0; g < owners; g++ {
		wg.Add(1)
		go func(g int) {
			defer wg.Done()
			<-start
			for i, o := range progs[g] {
				res, _ := applyStoreOp(s, o)
				logs[g] = append(logs[g], Event{"ev": "op", "op": o.Op, "k": o.K, "v": o.V, "m": mJSON(o.M), "d": o.D, "res": res, "snap": 0})
				want := int64(i+1) * int64(churnOps) / int64(opsPer)
				for progress.Load() < want {
					runtime.Gosched()
				}
			}
		}(g)
	}
	wg.Add(1)
	go func() {
		defer wg.Done()
		<-start
		for i := 0; i < churnOps; i++ {
			s.Set(churnKey(i), i)
			if i >= resident {
				s.Delete(churnKey(i - resident))
			}
			progress.Add(1)
		}
		progress.Add(int64(churnOps)) // let the owners finish
	}()
	close(start)
	wg.Wait()
	return logs
}

// runStoreClearStress: one goroutine (the judged owner) keeps filling the store with a large Merge - three keys of its
// own plus ballast - and emptying it with Clear, and asks about its own keys after every step; another goroutine keeps
// writing a key of its own all the time.  Nobody else writes the owner's keys, so the owner's log over its own keys
// (Merge, Clear, Has, Get) must be a correct sequential history: in particular a Clear that has returned is not undone.
func runStoreClearStress(r *rand.Rand, rounds, ballast int) []Event {
	s := flyt.NewSharedStore()
	var stop atomic.Bool
	var wg sync.WaitGroup
	wg.Add(1)
	go func() {
		defer wg.Done()
		for i := 0; !stop.Load(); i++ {
			s.Set(keyName(7), i)
			if i%64 == 0 {
				runtime.Gosched()
			}
		}
	}()
	var log []Event
	rec := func(o storeOp, res map[string]any) {
		log = append(log, Event{"ev": "op", "op": o.Op, "k": o.K, "v": o.V, "m": mJSON(o.M), "d": o.D, "res": res, "snap": 0})
	}
	base := 10
	for i := 0; i < rounds; i++ {
		o := storeOp{Op: "merge"}
		arg := map[string]any{}
		for k := base + 1; k <= base+3; k++ {
			v := randStoreValTok(r)
			o.M = append(o.M, [2]int{k, v})
			arg[keyName(k)] = storeVal(v)
		}
		for j := 0; j < ballast; j++ {
			arg[keyName(300000+j)] = j
		}
		s.Merge(arg)
		rec(o, noRes())
		q := storeOp{Op: "get", K: base + 1 + r.Intn(3)}
		res, _ := applyStoreOp(s, q)
		rec(q, res)
		cl := storeOp{Op: "clear"}
		res, _ = applyStoreOp(s, cl)
		rec(cl, res)
		for _, op := range []string{"has", "get"} {
			q := storeOp{Op: op, K: base + 1 + r.Intn(3)}
			res, _ := applyStoreOp(s, q)
			rec(q, res)
		}
	}
	stop.Store(true)
	wg.Wait()
	return log
}

// runStoreAggregate: ONE writer alternates  Merge(16 keys, all with the value g)  and  Clear;  readers call GetAll, Keys
// and Len all the time.  Every state the writer produces is either empty or holds exactly the 16 keys with one
// generation value, so that is all an atomic read may ever return (clause aggregateAtomic): a reader that sees some of
// the keys, or two generations, has observed part of a Merge or a half-cleared store.
func runStoreAggregate(rounds, readers, keep int) [][]Event {
	s := flyt.NewSharedStore()
	var stop atomic.Bool
	logs := make([][]Event, readers)
	var wg sync.WaitGroup
	for g := 0; g < readers; g++ {
		wg.Add(1)
		go func(g int) {
			defer wg.Done()
			for i := 0; !stop.Load(); i++ {
				var e Event
				switch (i + g) % 3 {
				case 0:
					m := s.GetAll()
					gens := map[int]bool{}
					for _, v := range m {
						if x, ok := v.(int); ok {
							gens[x] = true
						} else {
							gens[-1] = true
						}
					}
					e = Event{"ev": "aggread", "op": "getall", "n": len(m), "gens": len(gens)}
				case 1:
					e = Event{"ev": "aggread", "op": "keys", "n": len(s.Keys()), "gens": 0}
				default:
					e = Event{"ev": "aggread", "op": "len", "n": s.Len(), "gens": 0}
				}
				// keep the first reads and every read that is not one of the two legal shapes
				if len(logs[g]) < keep || !(e["n"] == 0 || e["n"] == 16) || e["gens"].(int) > 1 {
					if len(logs[g]) < 4*keep {
						logs[g] = append(logs[g], e)
					}
				}
			}
		}(g)
	}
	for r := 1; r <= rounds; r++ {
		m := map[string]any{}
		for k := 1; k <= 16; k++ {
			m[keyName(400+k)] = r
		}
		s.Merge(m)
		s.Clear()
	}
	stop.Store(true)
	wg.Wait()
	return logs
}
