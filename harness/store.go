package main

// Store families.
//   store      sequential operation sequences with snapshot mutation steps (C14)
//   storeconc  concurrent histories of call/ret events for the linearizability search (C13)

import (
	"fmt"
	"math"
	"math/rand"
	"sort"
	"strings"
	"sync"
	"time"

	"github.com/mark3labs/flyt"
)

// ---- tokens ----------------------------------------------------------------

func keyName(k int) string {
	switch {
	case k == 1:
		return "" // the empty key
	case k == 7:
		return "caf\xc3" // not valid UTF-8 (a truncated sequence): a key is a string of bytes
	case k == 11:
		return "caf\xff"
	case k%5 == 0:
		return keyName(k-1) + ".t" // looks like a path into the map that the neighbouring key may hold; it is a key like any other
	case k%3 == 0:
		return fmt.Sprintf("ключ-%d-é", k) // non-ASCII
	default:
		return fmt.Sprintf("k%d", k)
	}
}

func keyTok(s string) int {
	if s == "" {
		return 1
	}
	if s == "caf\xc3" {
		return 7
	}
	if s == "caf\xff" {
		return 11
	}
	if strings.HasSuffix(s, ".t") {
		if b := keyTok(strings.TrimSuffix(s, ".t")); b > 0 {
			return b + 1
		}
		return -1
	}
	var k int
	if _, err := fmt.Sscanf(s, "ключ-%d-é", &k); err == nil {
		return k
	}
	if _, err := fmt.Sscanf(s, "k%d", &k); err == nil {
		return k
	}
	return -1
}

// value tokens: 0 nil; below 100: v%3==2 a string, otherwise an int; from 100 on values of kinds that cannot be compared
// with == (slice, map, struct holding a slice), the two float zeroes (103: +0.0, 108: -0.0) and pointers
// typed slices ([]int) (same convention as StoreSem.tla)
func storeVal(v int) any {
	switch {
	case v == 0:
		return nil
	case v == 120:
		return (*int)(nil) // typed nils are values like any other: the store hands them back as they are
	case v == 121:
		return map[string]any(nil)
	case v == 122:
		return (func())(nil)
	case v == 103:
		return 0.0
	case v == 108:
		return math.Copysign(0, -1)
	case v >= 100 && v%5 == 0:
		return []any{v}
	case v >= 100 && v%5 == 1:
		return map[string]any{"t": v}
	case v >= 100 && v%5 == 2:
		return sStruct{S: []int{v}}
	case v >= 100:
		return []int{v} // a typed slice (the typed getters convert it)
	case v%3 == 2:
		return fmt.Sprintf("s%d", v)
	default:
		return v
	}
}

func storeValTok(x any) int {
	switch t := x.(type) {
	case nil:
		return 0
	case int:
		return t
	case float64:
		if t == 0 && math.Signbit(t) {
			return 108
		}
		if t == 0 {
			return 103
		}
	case []any:
		if len(t) == 1 {
			if v, ok := t[0].(int); ok {
				return v
			}
		}
	case *int:
		if t == nil {
			return 120
		}
	case func():
		if t == nil {
			return 122
		}
	case map[string]any:
		if t == nil {
			return 121
		}
		if v, ok := t["t"].(int); ok && len(t) == 1 {
			return v
		}
	case sStruct:
		if len(t.S) == 1 {
			return t.S[0]
		}
	case []int:
		if len(t) == 1 {
			return t[0]
		}
	case string:
		var v int
		if _, err := fmt.Sscanf(t, "s%d", &v); err == nil {
			return v
		}
	}
	return -1
}

type storeOp struct {
	Op   string
	K, V int
	M    [][2]int
	D    int
	Snap int
}

func parseStoreOp(e map[string]any) storeOp {
	o := storeOp{Op: asStr(e["op"]), K: asInt(e["k"]), V: asInt(e["v"]), D: asInt(e["d"]), Snap: asInt(e["snap"])}
	for _, p := range asList(e["m"]) {
		l := asList(p)
		o.M = append(o.M, [2]int{asInt(l[0]), asInt(l[1])})
	}
	return o
}

func pairsOf(m map[string]any) []any {
	ks := make([]int, 0, len(m))
	byTok := map[int]any{}
	for k, v := range m {
		t := keyTok(k)
		ks = append(ks, t)
		byTok[t] = v
	}
	sort.Ints(ks)
	res := []any{}
	for _, t := range ks {
		res = append(res, []any{t, storeValTok(byTok[t])})
	}
	return res
}

func mergeArg(m [][2]int) map[string]any {
	arg := map[string]any{}
	for _, p := range m {
		arg[keyName(p[0])] = storeVal(p[1])
	}
	return arg
}

func mJSON(m [][2]int) []any {
	l := []any{}
	for _, p := range m {
		l = append(l, []any{p[0], p[1]})
	}
	return l
}

func noRes() map[string]any {
	return map[string]any{"ok": false, "v": 0, "n": 0, "keys": []any{}, "pairs": []any{}}
}

// applyStoreOp performs one operation on the real store and returns the uniform result record
// (and the snapshot object for getall / keys).
func applyStoreOp(s *flyt.SharedStore, o storeOp) (map[string]any, any) {
	res := noRes()
	var snap any
	switch o.Op {
	case "set":
		s.Set(keyName(o.K), storeVal(o.V))
	case "get":
		v, ok := s.Get(keyName(o.K))
		res["ok"] = ok
		if ok {
			res["v"] = storeValTok(v)
		}
	case "has":
		res["ok"] = s.Has(keyName(o.K))
	case "delete":
		s.Delete(keyName(o.K))
	case "len":
		res["n"] = s.Len()
	case "keys":
		ks := s.Keys()
		toks := make([]int, len(ks))
		for i, k := range ks {
			toks[i] = keyTok(k)
		}
		sort.Ints(toks)
		l := []any{}
		for _, t := range toks {
			l = append(l, t)
		}
		res["keys"] = l
		res["n"] = len(ks)
		snap = ks
	case "getall":
		m := s.GetAll()
		res["pairs"] = pairsOf(m)
		res["n"] = len(m)
		snap = m
	case "merge":
		arg := mergeArg(o.M)
		s.Merge(arg)
		// the argument stays the caller's: what the caller does to it afterwards is none of the store's business
		for k := range arg {
			arg[k] = "changed by the caller after Merge"
		}
		arg[keyName(97)] = "added by the caller after Merge"
	case "mergenil":
		s.Merge(nil)
	case "clear":
		s.Clear()
	case "getint":
		if o.D == 0 {
			res["v"] = s.GetInt(keyName(o.K))
		} else {
			res["v"] = s.GetIntOr(keyName(o.K), o.D)
		}
	case "getslice":
		// the typed slice getter: the []any view of a stored slice value, nil for anything else
		sl := s.GetSlice(keyName(o.K))
		res["ok"] = sl != nil
		if len(sl) == 1 {
			if v, ok := sl[0].(int); ok {
				res["v"] = v
			} else {
				res["v"] = -1
			}
		} else if sl != nil {
			res["v"] = -1
		}
	default:
		fatal("unknown store op %q", o.Op)
	}
	return res, snap
}

// ---- sequential ---------------------------------------------------------------

type seqStep struct {
	Ev   string // op | mutsnap | mutkeys | readsnap | mergesnap
	Op   storeOp
	Snap int
	K, V int
}

type keysSnap struct {
	slice []string
	perm  []int // positions of the slice in ascending key-token order at creation time
}

// runStoreSeq runs the sequence under a watchdog: a store operation that never returns (a lock that is never released)
// ends the history with a "hang" event instead of hanging the harness.
func runStoreSeq(steps []seqStep) []Event {
	var mu sync.Mutex
	var shared []Event
	done := make(chan struct{})
	go func() {
		defer close(done)
		runStoreSeqInner(steps, func(e Event) {
			mu.Lock()
			shared = append(shared, e)
			mu.Unlock()
		})
	}()
	select {
	case <-done:
	case <-time.After(2 * time.Second):
		mu.Lock()
		shared = append(shared, Event{"ev": "hang"})
		mu.Unlock()
	}
	mu.Lock()
	defer mu.Unlock()
	return append([]Event{}, shared...)
}

func runStoreSeqInner(steps []seqStep, emit func(Event)) {
	func() {
		defer func() {
			if p := recover(); p != nil {
				emit(Event{"ev": "panic", "msg": fmt.Sprint(p)})
			}
		}()
		s := flyt.NewSharedStore()
		var snaps []any
		for _, st := range steps {
			switch st.Ev {
			case "op":
				res, snap := applyStoreOp(s, st.Op)
				sid := 0
				if st.Op.Op == "getall" {
					snaps = append(snaps, snap)
					sid = len(snaps)
				} else if st.Op.Op == "keys" {
					sl := snap.([]string)
					perm := make([]int, len(sl))
					for i := range perm {
						perm[i] = i
					}
					sort.Slice(perm, func(a, b int) bool { return keyTok(sl[perm[a]]) < keyTok(sl[perm[b]]) })
					snaps = append(snaps, &keysSnap{slice: sl, perm: perm})
					sid = len(snaps)
				}
				emit(Event{"ev": "op", "op": st.Op.Op, "k": st.Op.K, "v": st.Op.V, "m": mJSON(st.Op.M), "d": st.Op.D, "res": res, "snap": sid})
			case "mutsnap":
				if st.Snap < 1 || st.Snap > len(snaps) {
					continue
				}
				if m, ok := snaps[st.Snap-1].(map[string]any); ok {
					m[keyName(st.K)] = storeVal(st.V)
					emit(Event{"ev": "mutsnap", "snap": st.Snap, "k": st.K, "v": st.V})
				}
			case "mutkeys":
				if st.Snap < 1 || st.Snap > len(snaps) {
					continue
				}
				if ks, ok := snaps[st.Snap-1].(*keysSnap); ok && len(ks.slice) > 0 {
					ks.slice[ks.perm[0]] = keyName(st.K)
					emit(Event{"ev": "mutkeys", "snap": st.Snap, "k": st.K})
				}
			case "mergesnap":
				if st.Snap < 1 || st.Snap > len(snaps) {
					continue
				}
				if m, ok := snaps[st.Snap-1].(map[string]any); ok {
					s.Merge(m)
					emit(Event{"ev": "mergesnap", "snap": st.Snap})
				}
			case "readsnap":
				if st.Snap < 1 || st.Snap > len(snaps) {
					continue
				}
				e := Event{"ev": "readsnap", "snap": st.Snap, "pairs": []any{}, "keys": []any{}}
				switch x := snaps[st.Snap-1].(type) {
				case map[string]any:
					e["pairs"] = pairsOf(x)
				case *keysSnap:
					l := []any{}
					for _, p := range x.perm {
						l = append(l, keyTok(x.slice[p]))
					}
					e["keys"] = l
				}
				emit(e)
			}
		}
	}()
}

func stepsFromHistory(h []any) []seqStep {
	var steps []seqStep
	for _, ev := range h {
		e := asMap(ev)
		st := seqStep{Ev: asStr(e["ev"]), Snap: asInt(e["snap"]), K: asInt(e["k"]), V: asInt(e["v"])}
		if st.Ev == "op" {
			st.Op = parseStoreOp(e)
			st.K, st.V = 0, 0
		}
		steps = append(steps, st)
	}
	return steps
}

func stepsToJSON(steps []seqStep) []any {
	l := []any{}
	for _, s := range steps {
		l = append(l, map[string]any{"ev": s.Ev, "op": s.Op.Op, "k": s.K + s.Op.K, "v": s.V + s.Op.V, "m": mJSON(s.Op.M), "d": s.Op.D, "snap": s.Snap})
	}
	return l
}

var storeOps = []string{"set", "set", "set", "get", "get", "has", "delete", "len", "keys", "getall", "merge", "merge", "mergenil", "clear", "getint", "getint", "getslice", "getslice"}

func randStoreOp(r *rand.Rand, nKeys int) storeOp {
	o := storeOp{Op: storeOps[r.Intn(len(storeOps))]}
	switch o.Op {
	case "set":
		o.K, o.V = 1+r.Intn(nKeys), randStoreValTok(r)
		if r.Intn(6) == 0 {
			o.V = 0
		}
	case "get", "has", "delete", "getslice":
		o.K = 1 + r.Intn(nKeys)
	case "getint":
		o.K = 1 + r.Intn(nKeys)
		if r.Intn(2) == 0 {
			o.D = 9
		}
	case "merge":
		n := r.Intn(9)
		if n > nKeys {
			n = nKeys
		}
		seen := map[int]bool{}
		for j := 0; j < n; j++ {
			k := 1 + r.Intn(nKeys)
			if seen[k] {
				continue
			}
			seen[k] = true
			o.M = append(o.M, [2]int{k, randStoreValTok(r)})
		}
		sort.Slice(o.M, func(a, b int) bool { return o.M[a][0] < o.M[b][0] })
	}
	return o
}

// value tokens of all kinds; the uncomparable ones and the two float zeroes repeat often enough for a key to be
// overwritten with a value of the kind it already holds
var richToks = []int{100, 101, 102, 103, 108, 104, 105, 106, 107, 103, 108, 110, 111, 104, 109, 114, 120, 121, 122}

func randStoreValTok(r *rand.Rand) int {
	if r.Intn(3) == 0 {
		return richToks[r.Intn(len(richToks))]
	}
	return r.Intn(40)
}

// genChurnSeq: a long sequence dominated by Set / Delete of keys that exist, with a small live set - whatever the store
// amortises over many removals happens several times; the answers are compared with the map throughout
func genChurnSeq(r *rand.Rand) []seqStep {
	n := 150 + r.Intn(500)
	nKeys := 2 + r.Intn(10)
	live := map[int]bool{}
	var steps []seqStep
	for i := 0; i < n; i++ {
		var o storeOp
		switch x := r.Intn(20); {
		case x < 8 || len(live) == 0:
			o = storeOp{Op: "set", K: 1 + r.Intn(nKeys), V: randStoreValTok(r)}
			live[o.K] = true
		case x < 16:
			ks := make([]int, 0, len(live))
			for k := range live {
				ks = append(ks, k)
			}
			sort.Ints(ks)
			o = storeOp{Op: "delete", K: ks[r.Intn(len(ks))]}
			delete(live, o.K)
		default:
			o = randStoreOp(r, nKeys)
			switch o.Op {
			case "clear":
				live = map[int]bool{}
			case "set":
				live[o.K] = true
			case "delete":
				delete(live, o.K)
			case "merge":
				for _, p := range o.M {
					live[p[0]] = true
				}
			}
		}
		steps = append(steps, seqStep{Ev: "op", Op: o})
		if o.Op == "delete" || o.Op == "set" {
			// ask right away
			steps = append(steps, seqStep{Ev: "op", Op: storeOp{Op: []string{"has", "get", "len"}[r.Intn(3)], K: o.K}})
		}
	}
	steps = append(steps, seqStep{Ev: "op", Op: storeOp{Op: "getall"}}, seqStep{Ev: "op", Op: storeOp{Op: "keys"}}, seqStep{Ev: "op", Op: storeOp{Op: "len"}})
	return steps
}

// genBulkSeq: a few keys are set, then a Merge brings in tens to a thousand keys at once - some of them the ones that
// exist - and the store is asked about old and new keys; then the same again on top (a Merge is key-wise overwriting
// whatever its size and whatever the size of the store)
func genBulkSeq(r *rand.Rand) []seqStep {
	n := []int{64, 65, 63, 128, 200, 256, 257, 300, 1024}[r.Intn(9)]
	var steps []seqStep
	ask := func(k int) {
		steps = append(steps, seqStep{Ev: "op", Op: storeOp{Op: "get", K: k}}, seqStep{Ev: "op", Op: storeOp{Op: "has", K: k}})
	}
	pre := 1 + r.Intn(6)
	var old []int
	for i := 0; i < pre; i++ {
		k := 1 + r.Intn(n+8)
		old = append(old, k)
		steps = append(steps, seqStep{Ev: "op", Op: storeOp{Op: "set", K: k, V: 30 + i}})
	}
	for round := 0; round < 2; round++ {
		var o storeOp
		o.Op = "merge"
		for k := 1; k <= n; k++ {
			o.M = append(o.M, [2]int{k, 1 + (k+round)%25})
		}
		steps = append(steps, seqStep{Ev: "op", Op: o})
		for _, k := range old {
			ask(k)
		}
		ask(1)
		ask(n)
		ask(n + 1)
		steps = append(steps, seqStep{Ev: "op", Op: storeOp{Op: "len"}})
		if round == 0 && r.Intn(2) == 0 {
			steps = append(steps, seqStep{Ev: "op", Op: storeOp{Op: "clear"}}, seqStep{Ev: "op", Op: storeOp{Op: "set", K: 2, V: 39}})
			old = append(old, 2)
		}
	}
	return steps
}

func genStoreSeq(r *rand.Rand) []seqStep {
	if r.Intn(5) == 0 {
		return genChurnSeq(r)
	}
	if r.Intn(25) == 0 {
		return genBulkSeq(r)
	}
	n := 1 + r.Intn(200)
	nKeys := 2 + r.Intn(11)
	var steps []seqStep
	nSnaps := 0
	for i := 0; i < n; i++ {
		x := r.Intn(10)
		if nSnaps > 0 && x < 3 {
			kinds := []string{"mutsnap", "readsnap", "readsnap", "mutkeys", "mergesnap"}
			steps = append(steps, seqStep{Ev: kinds[r.Intn(len(kinds))], Snap: 1 + r.Intn(nSnaps), K: 1 + r.Intn(nKeys), V: r.Intn(40)})
			continue
		}
		o := randStoreOp(r, nKeys)
		if o.Op == "getall" || o.Op == "keys" {
			nSnaps++
		}
		steps = append(steps, seqStep{Ev: "op", Op: o})
	}
	// read every snapshot back at the end
	for s := 1; s <= nSnaps; s++ {
		steps = append(steps, seqStep{Ev: "readsnap", Snap: s})
	}
	return steps
}

// ---- concurrent -----------------------------------------------------------------

func runStoreConc(progs [][]storeOp) []Event {
	s := flyt.NewSharedStore()
	var mu sync.Mutex
	var evs []Event
	start := make(chan struct{})
	var wg sync.WaitGroup
	for g := range progs {
		wg.Add(1)
		go func(g int) {
			defer wg.Done()
			<-start
			for _, o := range progs[g] {
				mu.Lock() // call ticket: before invoking the store
				evs = append(evs, Event{"ev": "call", "g": g + 1, "op": o.Op, "k": o.K, "v": o.V, "m": mJSON(o.M), "d": o.D})
				mu.Unlock()
				res := func() (res map[string]any) {
					defer func() {
						if p := recover(); p != nil {
							// a panicking operation answers nothing a map would
							res = noRes()
							res["ok"], res["v"], res["n"] = true, -7, -7
						}
					}()
					var snap any
					res, snap = applyStoreOp(s, o)
					// the snapshot is the caller's own: it may do with it what it likes
					if m, ok := snap.(map[string]any); ok {
						m[keyName(96)] = "written into the caller's snapshot"
					} else if ks, ok := snap.([]string); ok && len(ks) > 0 {
						ks[0] = "overwritten in the caller's snapshot"
					}
					return res
				}()
				mu.Lock() // return ticket: after it returned
				evs = append(evs, Event{"ev": "ret", "g": g + 1, "res": res})
				mu.Unlock()
			}
		}(g)
	}
	close(start)
	wg.Wait()
	// when everybody is done the caller looks at the store once more, by itself: what it sees is the outcome of all the
	// operations above (whatever a concurrent read left behind in the store - a cached view, say - shows here)
	for _, o := range []storeOp{{Op: "keys"}, {Op: "getall"}, {Op: "len"}} {
		evs = append(evs, Event{"ev": "call", "g": len(progs) + 1, "op": o.Op, "k": o.K, "v": o.V, "m": mJSON(o.M), "d": o.D})
		res, _ := applyStoreOp(s, o)
		evs = append(evs, Event{"ev": "ret", "g": len(progs) + 1, "res": res})
	}
	return evs
}

// runStoreStress runs the programs concurrently without recording them, then asks the quiescent store about itself.
func runStoreStress(progs [][]storeOp) Event {
	s := flyt.NewSharedStore()
	start := make(chan struct{})
	var wg sync.WaitGroup
	for g := range progs {
		wg.Add(1)
		go func(g int) {
			defer wg.Done()
			<-start
			for _, o := range progs[g] {
				applyStoreOp(s, o)
			}
		}(g)
	}
	close(start)
	wg.Wait()
	ln := s.Len()
	keys := s.Keys()
	all := s.GetAll()
	hasAll := true
	for _, k := range keys {
		_, ok := s.Get(k)
		hasAll = hasAll && ok && s.Has(k)
	}
	for k := range all {
		hasAll = hasAll && s.Has(k)
	}
	toks := make([]int, len(keys))
	for i, k := range keys {
		toks[i] = keyTok(k)
	}
	sort.Ints(toks)
	kl := []any{}
	for _, t := range toks {
		kl = append(kl, t)
	}
	return Event{"ev": "quiesce", "len": ln, "keys": kl, "pairs": pairsOf(all), "hasall": hasAll}
}

func progsToJSON(progs [][]storeOp) []any {
	l := []any{}
	for _, p := range progs {
		pl := []any{}
		for _, o := range p {
			pl = append(pl, map[string]any{"op": o.Op, "k": o.K, "v": o.V, "m": mJSON(o.M), "d": o.D})
		}
		l = append(l, pl)
	}
	return l
}

func init() {
	families["store"] = func(o *Out, scnFile string, seed int64, count int, modes string, opts map[string]string) {
		id := 0
		maxScn := 0
		if ms := opts["maxscn"]; ms != "" {
			fmt.Sscanf(ms, "%d", &maxScn)
		}
		if rp := opts["replay"]; rp != "" {
			for _, line := range readLines(rp) {
				cfg := asMap(line["cfg"])
				steps := stepsFromHistory(asList(cfg["steps"]))
				var exp []any
				if asStr(line["src"]) == "tlc" {
					exp = asList(line["exp"])
				}
				o.WriteScenario(asInt(line["scn"]), "store", asStr(line["src"]), cfg, exp, runStoreSeq(steps))
			}
			return
		}
		if scnFile != "" {
			lines := readLines(scnFile)
			step := 1
			if maxScn > 0 && len(lines) > maxScn {
				step = len(lines)/maxScn + 1
			}
			for li, line := range lines {
				if (li+int(seed))%step != 0 {
					continue
				}
				exp := asList(line["h"])
				steps := stepsFromHistory(exp)
				id++
				if tooManyHangs() {
					break
				}
				evs := runStoreSeq(steps)
				noteHang(evs)
				o.WriteScenario(id, "store", "tlc", map[string]any{"steps": stepsToJSON(steps)}, exp, evs)
			}
		}
		r := rand.New(rand.NewSource(seed*31337 + 5))
		for i := 0; i < count; i++ {
			steps := genStoreSeq(r)
			id++
			if tooManyHangs() {
				break
			}
			evs := runStoreSeq(steps)
			noteHang(evs)
			o.WriteScenario(id, "store", "gen", map[string]any{"steps": stepsToJSON(steps)}, nil, evs)
		}
	}
	families["storeconc"] = func(o *Out, scnFile string, seed int64, count int, modes string, opts map[string]string) {
		if rp := opts["replay"]; rp != "" {
			for _, line := range readLines(rp) {
				cfg := asMap(line["cfg"])
				var progs [][]storeOp
				for _, p := range asList(cfg["progs"]) {
					var pr []storeOp
					for _, e := range asList(p) {
						pr = append(pr, parseStoreOp(asMap(e)))
					}
					progs = append(progs, pr)
				}
				o.WriteScenario(asInt(line["scn"]), "storeconc", "gen", cfg, nil, runStoreConc(progs))
			}
			return
		}
		stress := strings.Contains(modes, "stress")
		r := rand.New(rand.NewSource(seed*65537 + 11))
		if strings.Contains(modes, "churn") {
			id := 0
			for i := 0; i < count; i++ {
				owners := 2 + r.Intn(4)
				resident := []int{0, 40, 600, 1500}[r.Intn(4)]
				for g, l := range runStoreChurn(r, owners, 1200, 40000, resident) {
					id++
					o.WriteScenario(id, "storeowner", "gen", map[string]any{"run": i + 1, "owner": g + 1, "owners": owners, "resident": resident}, nil, l)
				}
				if i%3 == 1 {
					// one writer (Merge of 16 keys / Clear), readers of the aggregate views
					for g, l := range runStoreAggregate(3000, 3, 150) {
						id++
						o.WriteScenario(id, "storeagg", "gen:agg", map[string]any{"run": i + 1, "owner": g + 1, "owners": 3, "resident": 16}, nil, l)
					}
				}
				if i%3 == 0 {
					// fill-and-clear cycles of one owner while another goroutine keeps writing
					id++
					o.WriteScenario(id, "storeowner", "gen:clear", map[string]any{"run": i + 1, "owner": 0, "owners": 2, "resident": 1500}, nil,
						runStoreClearStress(r, 150, 1500))
				}
			}
			return
		}
		for i := 0; i < count; i++ {
			g := 2 + r.Intn(5)
			nKeys := 2 + r.Intn(7)
			nOps := 4 + r.Intn(7)
			if stress {
				nOps = 200
			}
			progs := make([][]storeOp, g)
			for j := range progs {
				for k := 0; k < nOps; k++ {
					progs[j] = append(progs[j], randStoreOp(r, nKeys))
				}
			}
			if stress {
				// oracles of the stress run: the race detector, and the store's answers about itself once
				// every goroutine has finished (a counter or cache that drifted stays wrong)
				q := runStoreStress(progs)
				o.WriteScenario(i+1, "storestress", "gen", map[string]any{"g": g}, nil, []Event{q})
				continue
			}
			evs := runStoreConc(progs)
			o.WriteScenario(i+1, "storeconc", "gen", map[string]any{"progs": progsToJSON(progs), "g": g}, nil, evs)
		}
	}
}
