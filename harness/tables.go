package main

// Table families: typed accessors (C15), Bind (C16), configuration (C19).
// The TLA+ modules FlytAccess / FlytBind / FlytConfig hold the decision tables;
// the harness exercises every cell on the real library with concrete values and
// logs plain facts (panicked, ok, equals the default, equals Go's own conversion ...).

import (
	"context"
	"encoding/json"
	"errors"
	"fmt"
	"math"
	"math/rand"
	"reflect"
	"sync"
	"sync/atomic"
	"time"

	"github.com/mark3labs/flyt"
)

// ---------------------------------------------------------------------------
// C15 accessors
// ---------------------------------------------------------------------------

type selfS []any
type namedS []int
type myInt int
type myStr string
type cStruct struct {
	A int
	B string
}
type sStruct struct{ S []int }
type stringerT struct{ N int }

func (s stringerT) String() string { return fmt.Sprintf("stringer-%d", s.N) }

func classReps(class string) []any {
	one := 1
	self := make(selfS, 1)
	self[0] = self
	switch class {
	case "nil":
		return []any{nil}
	case "string":
		return []any{"", "x", "héllo"}
	case "bool":
		return []any{true, false}
	case "int":
		return []any{0, 1, -1, math.MaxInt, math.MinInt}
	case "int8":
		return []any{int8(0), int8(127), int8(-128)}
	case "int16":
		return []any{int16(0), int16(32767), int16(-32768)}
	case "int32":
		return []any{int32(0), int32(math.MaxInt32), int32(math.MinInt32)}
	case "int64":
		return []any{int64(0), int64(math.MaxInt64), int64(math.MinInt64)}
	case "uint":
		return []any{uint(0), uint(7), uint(math.MaxUint)}
	case "uint8":
		return []any{uint8(0), uint8(255)}
	case "uint16":
		return []any{uint16(0), uint16(65535)}
	case "uint32":
		return []any{uint32(0), uint32(math.MaxUint32)}
	case "uint64":
		return []any{uint64(0), uint64(math.MaxUint64), uint64(1) << 63}
	case "float32":
		return []any{float32(0), float32(1.5), float32(-2.75), float32(math.MaxFloat32), float32(0.1), float32(3.14), float32(math.SmallestNonzeroFloat32)}
	case "float64":
		// (values a hair away from a whole number: the conversion truncates, it does not round)
		return []any{0.0, 1.5, -2.75, 3.9999999, 1e300, -1e300, 56.99999999999999, math.Nextafter(3, 0), -41.9999999999, 0.9999999999, 0.57 * 100}
	case "nan":
		return []any{math.NaN()}
	case "inf":
		return []any{math.Inf(1), math.Inf(-1)}
	case "anyslice":
		return []any{[]any{}, []any{1, "a", nil}, []any(nil)}
	case "strslice":
		return []any{[]string{"a", "b"}, []string{}}
	case "intslice":
		return []any{[]int{3, 1, 2}, []int{7}}
	case "f64slice":
		return []any{[]float64{1.5, 2.5}}
	case "mapslice":
		return []any{[]map[string]any{{"a": 1}, {"b": 2}}}
	case "otherslice":
		return []any{[]bool{true}, []*int{&one}, [][]int{{1}, {2, 3}}, []cStruct{{1, "x"}}, []byte("ab"), []any{map[string]any{"k": 1}}[0:1:1]}
	case "nilslice":
		return []any{[]int(nil), []bool(nil), []string(nil)}
	case "selfslice":
		return []any{self}
	case "namedslice":
		return []any{namedS{1, 2}, namedS{5}}
	case "map":
		return []any{map[string]any{"a": 1}, map[string]any{}}
	case "othermap":
		return []any{map[int]string{1: "a"}, map[string]int{"a": 1}}
	case "func":
		return []any{func() {}}
	case "chan":
		return []any{make(chan int)}
	case "ptr":
		return []any{&one, &cStruct{1, "p"}, errors.New("an error value is a pointer like any other")}
	case "nilptr":
		return []any{(*int)(nil)}
	case "array":
		return []any{[2]int{1, 2}, [1]any{[]int{1}}}
	case "cstruct":
		return []any{cStruct{1, "x"}, stringerT{7}} // (a value with a String method is not a string)
	case "sstruct":
		return []any{sStruct{S: []int{1}}}
	case "namedint":
		// (named integer types of the standard library are named types like any other)
		return []any{myInt(5), time.Duration(1500), reflect.Kind(3)}
	case "namedstr":
		// (json.Number is a named string type: a number only to encoding/json)
		return []any{myStr("s"), flyt.Action("next"), flyt.DefaultAction, json.Number("12"), json.Number(""), json.Number("abc"), json.Number("1.5"), json.Number("1e400")}
	case "errresult":
		return []any{errors.New("carried error")}
	case "resultval":
		// the wrapper is a value like any other: wrapping it again must not look through it
		return []any{flyt.NewResult(42), flyt.NewResult("s"), flyt.NewResult(true), flyt.NewResult(1.5), flyt.NewResult([]any{1, 2}),
			flyt.NewResult(map[string]any{"a": 1}), flyt.NewResult(nil), flyt.NewErrorResult(errors.New("inner"))}
	}
	fatal("unknown class %q", class)
	return nil
}

// Go's own conversion of the documented source types (the reference for "faithful")
func refInt(v any) (int, bool) {
	switch x := v.(type) {
	case int:
		return x, true
	case int8:
		return int(x), true
	case int16:
		return int(x), true
	case int32:
		return int(x), true
	case int64:
		return int(x), true
	case uint:
		return int(x), true
	case uint8:
		return int(x), true
	case uint16:
		return int(x), true
	case uint32:
		return int(x), true
	case uint64:
		return int(x), true
	case float32:
		return int(x), true
	case float64:
		return int(x), true
	}
	return 0, false
}

func refFloat(v any) (float64, bool) {
	switch x := v.(type) {
	case int:
		return float64(x), true
	case int8:
		return float64(x), true
	case int16:
		return float64(x), true
	case int32:
		return float64(x), true
	case int64:
		return float64(x), true
	case uint:
		return float64(x), true
	case uint8:
		return float64(x), true
	case uint16:
		return float64(x), true
	case uint32:
		return float64(x), true
	case uint64:
		return float64(x), true
	case float32:
		return float64(x), true
	case float64:
		return x, true
	}
	return 0, false
}

func sameFloat(a, b float64) bool { return a == b || (math.IsNaN(a) && math.IsNaN(b)) }

func sameRef(a, b any) bool {
	if a == nil || b == nil {
		return a == nil && b == nil
	}
	ra, rb := reflect.ValueOf(a), reflect.ValueOf(b)
	if ra.Type() != rb.Type() {
		return false
	}
	switch ra.Kind() {
	case reflect.Map, reflect.Ptr, reflect.Chan, reflect.Func, reflect.UnsafePointer:
		return ra.Pointer() == rb.Pointer()
	case reflect.Slice:
		return ra.Pointer() == rb.Pointer() && ra.Len() == rb.Len()
	}
	return reflect.DeepEqual(a, b)
}

// elementwise comparison of two []any (identity for reference kinds, NaN equals NaN)
func sameElems(a, b []any) bool {
	if len(a) != len(b) {
		return false
	}
	for i := range a {
		fa, oka := a[i].(float64)
		fb, okb := b[i].(float64)
		if oka && okb {
			if !sameFloat(fa, fb) {
				return false
			}
			continue
		}
		if !sameRef(a[i], b[i]) {
			return false
		}
	}
	return true
}

var dfltSlice = []any{"dflt"}
var dfltMap = map[string]any{"dflt": true}

const dfltStr = "«dflt»"
const dfltInt = -987654321
const dfltFloat = -9876.54321

type accessFacts struct {
	panicked, ok, isdefault, iszero, eqref bool
}

func callAccessor(family, variant, carrier string, v any) (f accessFacts) {
	return callAccessorOn(nil, family, variant, carrier, v)
}

// callAccessorOn uses the given store (whose key "k" already holds v) instead of a fresh one
func callAccessorOn(shared *flyt.SharedStore, family, variant, carrier string, v any) (f accessFacts) {
	defer func() {
		if p := recover(); p != nil {
			f = accessFacts{panicked: true}
		}
	}()
	var r flyt.Result
	s := shared
	if s == nil {
		s = flyt.NewSharedStore()
	}
	key := "k"
	switch carrier {
	case "result":
		if e, isErr := v.(error); isErr {
			r = flyt.NewErrorResult(e)
		} else {
			r = flyt.NewResult(v)
		}
	case "store":
		if shared == nil {
			s.Set(key, v)
		}
	case "absent":
		key = "missing"
		s.Set("other", v)
	}
	dfltBool := true
	if b, isB := v.(bool); isB {
		dfltBool = !b
	}
	switch family {
	case "String":
		var got string
		switch {
		case carrier == "result" && variant == "plain":
			got, f.ok = r.AsString()
		case carrier == "result" && variant == "or":
			got = r.AsStringOr(dfltStr)
		case carrier == "result":
			got = r.MustString()
		case variant == "plain":
			got = s.GetString(key)
		default:
			got = s.GetStringOr(key, dfltStr)
		}
		ref, okr := v.(string)
		f.eqref = okr && got == ref
		f.iszero = got == ""
		f.isdefault = got == dfltStr
	case "Int":
		var got int
		switch {
		case carrier == "result" && variant == "plain":
			got, f.ok = r.AsInt()
		case carrier == "result" && variant == "or":
			got = r.AsIntOr(dfltInt)
		case carrier == "result":
			got = r.MustInt()
		case variant == "plain":
			got = s.GetInt(key)
		default:
			got = s.GetIntOr(key, dfltInt)
		}
		ref, okr := refInt(v)
		f.eqref = okr && got == ref
		f.iszero = got == 0
		f.isdefault = got == dfltInt
	case "Float64":
		var got float64
		switch {
		case carrier == "result" && variant == "plain":
			got, f.ok = r.AsFloat64()
		case carrier == "result" && variant == "or":
			got = r.AsFloat64Or(dfltFloat)
		case carrier == "result":
			got = r.MustFloat64()
		case variant == "plain":
			got = s.GetFloat64(key)
		default:
			got = s.GetFloat64Or(key, dfltFloat)
		}
		ref, okr := refFloat(v)
		f.eqref = okr && sameFloat(got, ref)
		f.iszero = got == 0
		f.isdefault = got == dfltFloat
	case "Bool":
		var got bool
		switch {
		case carrier == "result" && variant == "plain":
			got, f.ok = r.AsBool()
		case carrier == "result" && variant == "or":
			got = r.AsBoolOr(dfltBool)
		case carrier == "result":
			got = r.MustBool()
		case variant == "plain":
			got = s.GetBool(key)
		default:
			got = s.GetBoolOr(key, dfltBool)
		}
		ref, okr := v.(bool)
		f.eqref = okr && got == ref
		f.iszero = !got
		f.isdefault = got == dfltBool
	case "Slice":
		var got []any
		switch {
		case carrier == "result" && variant == "plain":
			got, f.ok = r.AsSlice()
		case carrier == "result" && variant == "or":
			got = r.AsSliceOr(dfltSlice)
		case carrier == "result":
			got = r.MustSlice()
		case variant == "plain":
			got = s.GetSlice(key)
		default:
			got = s.GetSliceOr(key, dfltSlice)
		}
		// same elements in the same order as the slice conversion utility
		isSlice := v != nil && reflect.ValueOf(v).Kind() == reflect.Slice
		f.eqref = isSlice && sameElems(got, flyt.ToSlice(v))
		f.iszero = got == nil
		f.isdefault = len(got) == 1 && sameRef(got, dfltSlice)
	case "Map":
		var got map[string]any
		switch {
		case carrier == "result" && variant == "plain":
			got, f.ok = r.AsMap()
		case carrier == "result" && variant == "or":
			got = r.AsMapOr(dfltMap)
		case carrier == "result":
			got = r.MustMap()
		case variant == "plain":
			got = s.GetMap(key)
		default:
			got = s.GetMapOr(key, dfltMap)
		}
		ref, okr := v.(map[string]any)
		f.eqref = okr && sameRef(got, ref)
		f.iszero = got == nil
		f.isdefault = got != nil && sameRef(got, dfltMap)
	}
	return f
}

func toSliceFacts(class string, rep int, v any) Event {
	ok := true
	func() {
		defer func() {
			if recover() != nil {
				ok = false
			}
		}()
		out := flyt.ToSlice(v)
		switch {
		case v == nil:
			ok = out != nil && len(out) == 0
		case reflect.ValueOf(v).Kind() == reflect.Slice:
			rv := reflect.ValueOf(v)
			ok = len(out) == rv.Len()
			for i := 0; ok && i < rv.Len(); i++ {
				e := rv.Index(i).Interface()
				fe, isf := e.(float64)
				fo, isfo := out[i].(float64)
				if isf && isfo {
					ok = sameFloat(fe, fo)
				} else {
					ok = sameRef(e, out[i])
				}
			}
		default:
			if fv, isf := v.(float64); isf {
				fo, isfo := out[0].(float64)
				ok = len(out) == 1 && isfo && sameFloat(fv, fo)
			} else {
				ok = len(out) == 1 && sameRef(out[0], v)
			}
		}
	}()
	return Event{"ev": "toslice", "class": class, "rep": rep, "ok": ok}
}

var accessClasses = []string{"nil", "string", "bool", "int", "int8", "int16", "int32", "int64", "uint", "uint8", "uint16", "uint32", "uint64",
	"float32", "float64", "nan", "inf", "anyslice", "strslice", "intslice", "f64slice", "mapslice", "otherslice", "nilslice", "selfslice",
	"namedslice", "map", "othermap", "func", "chan", "ptr", "nilptr", "array", "cstruct", "sstruct", "namedint", "namedstr", "errresult", "resultval"}

func randomValue(r *rand.Rand) (string, any) {
	switch r.Intn(16) {
	case 0:
		return "int", r.Int() - r.Int()
	case 1:
		return "int8", int8(r.Intn(256) - 128)
	case 2:
		return "uint16", uint16(r.Intn(65536))
	case 3:
		return "int64", r.Int63() - r.Int63()
	case 4:
		return "uint64", r.Uint64()
	case 5:
		return "float64", (r.Float64() - 0.5) * math.Pow(10, float64(r.Intn(40)-5))
	case 6:
		return "float32", float32((r.Float64() - 0.5) * math.Pow(10, float64(r.Intn(30))))
	case 7:
		return "string", fmt.Sprintf("s%d", r.Intn(1000))
	case 8:
		n := r.Intn(5)
		l := make([]any, n)
		for i := range l {
			l[i] = r.Intn(10)
		}
		return "anyslice", l
	case 9:
		n := r.Intn(5)
		l := make([]int, n)
		for i := range l {
			l[i] = r.Intn(10)
		}
		return "intslice", l
	case 10:
		return "map", map[string]any{fmt.Sprint(r.Intn(5)): r.Intn(5)}
	case 11:
		return "uint32", r.Uint32()
	case 12:
		return "int16", int16(r.Intn(65536) - 32768)
	case 13:
		return "uint", uint(r.Uint64())
	case 14:
		n := r.Intn(4)
		l := make([]float64, n)
		for i := range l {
			l[i] = r.NormFloat64()
		}
		return "f64slice", l
	default:
		return "bool", r.Intn(2) == 0
	}
}

// ---------------------------------------------------------------------------
// C16 Bind
// ---------------------------------------------------------------------------

type tagged struct {
	ID   int    `json:"id"`
	Name string `json:"name"`
}
type untagged struct {
	ID   int
	Name string
	Tags []string
}
type other struct {
	ID   string `json:"id"` // incompatible with an int id
	Flag bool   `json:"flag"`
}

type rawHolder struct {
	ID   int             `json:"id"`
	Name json.RawMessage `json:"name"`
}

type order struct {
	Billing  *tagged `json:"billing"`
	Shipping *tagged `json:"shipping"`
}

type bindValue struct {
	name string
	mk   func() any
}

var bindValues = []bindValue{
	{"map", func() any { return map[string]any{"id": 1, "name": "x"} }},
	{"mapnested", func() any { return map[string]any{"id": 2, "inner": map[string]any{"a": []any{1, 2}}} }},
	{"tagged", func() any { return tagged{3, "t"} }},
	{"untagged", func() any { return untagged{4, "u", []string{"a"}} }},
	{"ptrstruct", func() any { return &tagged{5, "p"} }},
	{"slice", func() any { return []int{1, 2, 3} }},
	{"anyslice", func() any { return []any{"a", 1.5, nil} }},
	{"int", func() any { return 42 }},
	{"string", func() any { return "str" }},
	{"float", func() any { return 2.5 }},
	{"bool", func() any { return true }},
	{"complex", func() any { return complex(1, 2) }},
	{"bytes", func() any { return []byte("hi") }},
	{"bytesjsonobj", func() any { return []byte(`{"id":7,"name":"x"}`) }}, // bytes are bytes (base64 in JSON) also when they look like JSON
	{"bytesjsonnum", func() any { return []byte("123") }},
	{"bytesjsonstr", func() any { return []byte(`"hi"`) }},
	{"rawjson", func() any { return json.RawMessage(`{"id":8,"name":"raw"}`) }},
	{"resultval", func() any { return flyt.NewResult(42) }}, // a value whose dynamic type is flyt.Result
	{"errresultval", func() any { return flyt.NewErrorResult(errors.New("inner")) }},
	{"float32", func() any { return float32(0.1) }},
	{"negint", func() any { return -1 }},
	{"shortslice", func() any { return []int{1, 2} }},
	{"chan", func() any { return make(chan int) }},
	{"func", func() any { return func() {} }},
	{"mapchan", func() any { return map[string]any{"c": make(chan int)} }},
	{"partialmap", func() any { return map[string]any{"name": "only-name"} }},
	{"badfield", func() any { return map[string]any{"id": 42, "name": 5} }}, // fails part-way into a struct
	// values in which one sub-value is reachable twice (a tree for encoding/json, which copies it out twice) ...
	{"sharedptr", func() any { a := &tagged{1, "addr"}; return order{Billing: a, Shipping: a} }},
	{"sharedmap", func() any { m := map[string]any{"id": 1}; return map[string]any{"dev": m, "prod": m, "id": 5} }},
	{"sharedslice", func() any { t := []any{"a", "b"}; return []any{t, t} }},
	{"sharedinslice", func() any { a := &tagged{2, "x"}; return []*tagged{a, a, a} }},
	// ... and one that really contains itself (encoding/json reports an error)
	{"cyclic", func() any { m := map[string]any{"id": 1}; m["self"] = m; return m }},
	// characters encoding/json escapes (<, >, &, U+2028): the bytes a json.RawMessage destination receives are json.Marshal's
	{"htmlmap", func() any { return map[string]any{"id": 6, "name": "<b>Tom & Jerry</b>", "k<&>": "\u2028"} }},
	{"htmlstring", func() any { return "<a href=\"x\">&</a>" }},
	// typed nils are non-nil values
	{"nilptr", func() any { return (*tagged)(nil) }},
	{"nilmap", func() any { return map[string]any(nil) }},
	{"nilslice", func() any { return []int(nil) }},
}

// destinations of class ptrother
var bindOtherDests = []func() any{
	func() any { return &tagged{} },
	func() any { return &untagged{} },
	func() any { return &other{} },
	func() any { return &map[string]any{} },
	func() any { var a any; return &a },
	func() any { var i int; return &i },
	func() any { return &[]int{} },
	func() any { var s string; return &s },
	func() any { var u uint8; return &u },
	func() any { return &[4]int{} },
	func() any { var f float32; return &f },
	func() any { var p *tagged; return &p },                     // pointer to a nil pointer: encoding/json allocates
	func() any { p := &tagged{ID: 7, Name: "keep"}; return &p }, // pointer to a pointer that points somewhere already
	func() any { var p *[]int; return &p },
	// pre-filled destinations: json.Unmarshal decodes INTO the destination, fields absent from the JSON survive
	func() any { return &tagged{ID: 77, Name: "keep"} },
	func() any { return &map[string]any{"keep": true} },
	func() any { return &untagged{ID: 9, Name: "keep", Tags: []string{"x", "y"}} },
	// destinations that see the encoded bytes themselves
	func() any { return &json.RawMessage{} },
	func() any { return &rawHolder{} },
	func() any { return &map[string]json.RawMessage{} },
}

// runBindAlias: the store holds a reference (map, slice, pointer); the caller binds it, changes the referenced value in
// place without any store write, and binds again - into the same and into another destination type, through the store
// and through a Result made from the stored value.
func runBindAlias(bv bindValue, destIdx int, carrier string) (ev Event, applicable bool) {
	v := bv.mk()
	mutate := func() bool {
		switch x := v.(type) {
		case map[string]any:
			if x == nil {
				return false
			}
			x["id"] = 99
			x["added"] = []any{"later"}
		case *tagged:
			if x == nil {
				return false
			}
			x.ID, x.Name = 99, "changed"
		case []int:
			if len(x) == 0 {
				return false
			}
			x[0] = 99
		case []any:
			if len(x) == 0 {
				return false
			}
			x[0] = "changed"
		default:
			return false
		}
		return true
	}
	mk := bindOtherDests[destIdx%len(bindOtherDests)]
	if reflect.TypeOf(mk()).Elem() == reflect.TypeOf(v) {
		mk = bindOtherDests[(destIdx+1)%len(bindOtherDests)]
	}
	ev = Event{"ev": "bindalias", "val": bv.name, "carrier": carrier, "panicked": false, "iserr": false, "referr": false, "desteq": false}
	s := flyt.NewSharedStore()
	s.Set("k", v)
	func() {
		defer func() {
			if recover() != nil {
				ev["panicked"] = true
			}
		}()
		_ = s.Bind("k", mk()) // first bind: whatever the store remembers about this key, it remembers now
		cur, _ := s.Get("k")
		_ = flyt.NewResult(cur).Bind(mk())
		if !mutate() {
			return
		}
		applicable = true
		dest, refDest := mk(), mk()
		var err error
		if carrier == "store" {
			err = s.Bind("k", dest)
		} else {
			cur, _ := s.Get("k")
			err = flyt.NewResult(cur).Bind(dest)
		}
		var refErr error
		b, merr := json.Marshal(v)
		if merr != nil {
			refErr = merr
		} else {
			refErr = json.Unmarshal(b, refDest)
		}
		ev["iserr"], ev["referr"] = err != nil, refErr != nil
		ev["desteq"] = reflect.DeepEqual(reflect.ValueOf(dest).Elem().Interface(), reflect.ValueOf(refDest).Elem().Interface())
	}()
	return ev, applicable || ev["panicked"] == true
}

// runBindRace: one goroutine keeps setting and deleting a key, the caller binds it again and again: every Bind either binds
// the value or reports an error
func runBindRace(dest string) Event {
	s := flyt.NewSharedStore()
	stop := make(chan struct{})
	var wg sync.WaitGroup
	wg.Add(1)
	go func() {
		defer wg.Done()
		for {
			select {
			case <-stop:
				return
			default:
			}
			switch dest {
			case "struct":
				s.Set("k", map[string]any{"id": 7, "name": "seven"})
			default:
				s.Set("k", 7)
			}
			s.Delete("k")
		}
	}()
	bad, iters, panicked := 0, 0, false
	func() {
		defer func() {
			if recover() != nil {
				panicked = true
			}
		}()
		deadline := time.Now().Add(120 * time.Millisecond)
		for iters = 0; iters < 400000 && time.Now().Before(deadline); iters++ {
			switch dest {
			case "int":
				d := 0
				if err := s.Bind("k", &d); err == nil && d != 7 {
					bad++
				}
			case "any":
				var d any
				if err := s.Bind("k", &d); err == nil && d == nil {
					bad++
				}
			default:
				var d tagged
				if err := s.Bind("k", &d); err == nil && d.ID != 7 {
					bad++
				}
			}
		}
	}()
	close(stop)
	wg.Wait()
	if panicked {
		bad++
	}
	return Event{"ev": "bindrace", "dest": dest, "iters": iters, "bad": bad}
}

func deepCopyCheck(a, b any) bool {
	if a == nil || b == nil {
		return a == nil && b == nil
	}
	switch reflect.ValueOf(a).Kind() {
	case reflect.Chan, reflect.Func:
		return true // identity is checked by the caller for these
	}
	// funcs and chans nested in maps: DeepEqual on chans compares identity, fine
	return reflect.DeepEqual(a, b)
}

func runBind(carrier string, present, nilval bool, destClass string, bv bindValue, destIdx int) Event {
	var v, orig any
	if !nilval {
		v, orig = bv.mk(), bv.mk()
		switch reflect.ValueOf(v).Kind() {
		case reflect.Chan, reflect.Func, reflect.Ptr:
			orig = nil
		}
		if rv := reflect.ValueOf(v); (rv.Kind() == reflect.Map || rv.Kind() == reflect.Slice) && rv.IsNil() {
			orig = nil
		}
		if bv.name == "mapchan" {
			orig = nil
		}
	}
	// the destination and an identical one for the reference
	var dest, refDest any
	switch destClass {
	case "niliface":
		dest = nil
	case "nonptr":
		dest = tagged{}
	case "nilptr":
		dest = (*tagged)(nil)
	case "ptrsame":
		dest = reflect.New(reflect.TypeOf(v)).Interface()
	case "ptrother":
		mk := bindOtherDests[destIdx%len(bindOtherDests)]
		dest, refDest = mk(), mk()
		if v != nil && reflect.TypeOf(dest).Elem() == reflect.TypeOf(v) {
			// accidentally the value's own type: pick another destination
			mk = bindOtherDests[(destIdx+1)%len(bindOtherDests)]
			dest, refDest = mk(), mk()
		}
	}
	// the encoding/json reference
	ref := "ok"
	if destClass == "ptrother" {
		b, merr := json.Marshal(v)
		if merr != nil {
			ref = "marshalerr"
		} else if uerr := json.Unmarshal(b, refDest); uerr != nil {
			ref = "unmarshalerr"
		}
	}
	ev := Event{"ev": "bind", "carrier": carrier, "present": present, "nilval": nilval, "dest": destClass, "ref": ref, "val": bv.name,
		"panicked": false, "iserr": false, "desteq": false, "copyeq": false, "srcsame": true, "partialeq": true}
	var err error
	func() {
		defer func() {
			if p := recover(); p != nil {
				ev["panicked"] = true
			}
		}()
		if carrier == "result" {
			err = flyt.NewResult(v).Bind(dest)
		} else {
			s := flyt.NewSharedStore()
			key := "k"
			if present {
				s.Set("k", v)
			} else if v != nil {
				// the key is missing although a key that looks like the first segment of a path to it exists
				s.Set("k", v)
				key = []string{"k.name", "k.t", "missing", "k.0", "k.", ".k", "k.a.b"}[destIdx%7]
			}
			err = s.Bind(key, dest)
			if present {
				after, _ := s.Get("k")
				if !nilval && !sameRef(after, v) && !reflect.DeepEqual(after, v) {
					ev["srcsame"] = false
				}
			}
		}
	}()
	ev["iserr"] = err != nil
	if err != nil && present && !nilval && destClass == "ptrother" && ref == "unmarshalerr" && ev["panicked"] == false {
		// a decode that fails part-way leaves exactly what encoding/json leaves in the destination
		got := reflect.ValueOf(dest).Elem().Interface()
		ev["partialeq"] = reflect.DeepEqual(got, reflect.ValueOf(refDest).Elem().Interface())
	}
	if orig != nil && !deepCopyCheck(v, orig) {
		ev["srcsame"] = false
	}
	if err == nil && ev["panicked"] == false && dest != nil && reflect.ValueOf(dest).Kind() == reflect.Ptr && !reflect.ValueOf(dest).IsNil() {
		got := reflect.ValueOf(dest).Elem().Interface()
		if destClass == "ptrsame" {
			ev["copyeq"] = sameRef(got, v) || reflect.DeepEqual(got, v)
		}
		if destClass == "ptrother" && ref == "ok" {
			ev["desteq"] = reflect.DeepEqual(got, reflect.ValueOf(refDest).Elem().Interface())
		}
	}
	return ev
}

// both carriers on the same non-nil value and destination class
func runBindAgree(bv bindValue, destIdx int) Event {
	mk := bindOtherDests[destIdx%len(bindOtherDests)]
	d1, d2 := mk(), mk()
	ok := true
	func() {
		defer func() {
			if recover() != nil {
				ok = false
			}
		}()
		v := bv.mk()
		e1 := flyt.NewResult(v).Bind(d1)
		s := flyt.NewSharedStore()
		s.Set("k", v)
		e2 := s.Bind("k", d2)
		ok = (e1 == nil) == (e2 == nil)
		if ok && e1 == nil {
			ok = reflect.DeepEqual(reflect.ValueOf(d1).Elem().Interface(), reflect.ValueOf(d2).Elem().Interface())
		}
	}()
	return Event{"ev": "bindagree", "val": bv.name, "ok": ok}
}

// ---------------------------------------------------------------------------
// C19 configuration
// ---------------------------------------------------------------------------

type cfgStep struct {
	Param, Form string
	Val         int
	Sty         string // function settings: "r" Result style, "a" Any style
}

type cfgProbe struct {
	mu       sync.Mutex
	failExec bool
	big      bool           // some step sets the retry budget beyond 32 bits
	called   map[string]int // phase -> id of the function that ran last
	attempts int32
	inflight int32
	hwm      int32
	executed int32 // bit set of the items whose exec ran
	barrier  chan struct{}
	barN     int32
	arrived  int32
	once     sync.Once
	prepKind string // what the post function was handed as the prep value: "string", "result", ...
}

func (p *cfgProbe) sawPrep(v any) {
	k := "other"
	switch x := v.(type) {
	case nil:
		k = "nil"
	case string:
		k = "string"
	case flyt.Result:
		k = "result"
		_ = x
	}
	p.mu.Lock()
	p.prepKind = k
	p.mu.Unlock()
}

func (p *cfgProbe) mark(phase string, id int) {
	p.mu.Lock()
	p.called[phase] = id
	p.mu.Unlock()
}

type namedFb func(any, error) (any, error)

func runConfigScenario(kind string, steps []cfgStep) []Event {
	return runConfigScenarioOpt(kind, steps, false)
}

// second: the options are kept in ONE slice from which two nodes are constructed (NewNode(list...)); the second is probed
func runConfigScenarioOpt(kind string, steps []cfgStep, second bool) []Event {
	var evs []Event
	for _, s := range steps {
		sty := s.Sty
		if sty == "" {
			sty = "r"
		}
		evs = append(evs, Event{"ev": "cfgstep", "param": s.Param, "form": s.Form, "val": s.Val, "sty": sty})
	}
	p := &cfgProbe{called: map[string]int{}, barrier: make(chan struct{})}
	for _, s := range steps {
		if s.Param == "retries" && s.Val == 4 {
			p.big = true
		}
	}
	var boom = errors.New("probe failure")
	// settings the node's own prep callback applies to the node while it runs (form "inprep"): the last settings of all
	var lateBase *flyt.BaseNode
	var inprep []cfgStep
	for _, s := range steps {
		if s.Form == "inprep" {
			inprep = append(inprep, s)
		}
	}
	applyInPrep := func() {
		for _, s := range inprep {
			if lateBase == nil {
				return
			}
			switch s.Param {
			case "retries":
				flyt.WithMaxRetries(s.Val)(lateBase)
			case "conc":
				flyt.WithBatchConcurrency(s.Val)(lateBase)
			case "mode":
				flyt.WithBatchErrorHandling(s.Val == 0)(lateBase)
			}
		}
	}

	prepFn := func(id int) func(context.Context, *flyt.SharedStore) (flyt.Result, error) {
		if id == 0 {
			return nil // "no function": a setting like any other, it takes the parameter back to its default
		}
		return func(ctx context.Context, s *flyt.SharedStore) (flyt.Result, error) {
			p.mark("prep", id)
			applyInPrep()
			return flyt.NewResult("prep"), nil
		}
	}
	execBody := func(id int, item int) error {
		p.mark("exec", id)
		atomic.AddInt32(&p.attempts, 1)
		n := atomic.AddInt32(&p.inflight, 1)
		for {
			h := atomic.LoadInt32(&p.hwm)
			if n <= h || atomic.CompareAndSwapInt32(&p.hwm, h, n) {
				break
			}
		}
		defer atomic.AddInt32(&p.inflight, -1)
		if p.barN > 1 && item >= 1 && int32(item) <= p.barN {
			if atomic.AddInt32(&p.arrived, 1) >= p.barN {
				p.once.Do(func() { close(p.barrier) })
			}
			select {
			case <-p.barrier:
			case <-time.After(2 * time.Second): // (generous: a loaded machine must not look like a lower concurrency level)
				p.once.Do(func() { close(p.barrier) })
			}
		}
		if (p.failExec && !(p.big && atomic.LoadInt32(&p.attempts) > 4)) || item == 1 {
			return boom // (under a budget beyond 32 bits the "always failing" exec gives in at its fifth attempt)
		}
		if item > 0 {
			time.Sleep(2 * time.Millisecond)
		}
		return nil
	}
	execFn := func(id int) func(context.Context, flyt.Result) (flyt.Result, error) {
		if id == 0 {
			return nil // "no function": a setting like any other, it takes the parameter back to its default
		}
		return func(ctx context.Context, r flyt.Result) (flyt.Result, error) {
			item := 0
			if v, ok := r.Value().(int); ok {
				item = v
			}
			if item >= 1 && item <= 30 {
				for {
					old := atomic.LoadInt32(&p.executed)
					if atomic.CompareAndSwapInt32(&p.executed, old, old|1<<uint(item)) {
						break
					}
				}
			}
			if err := execBody(id, item); err != nil {
				return flyt.Result{}, err
			}
			return flyt.NewResult("exec"), nil
		}
	}
	postFn := func(id int) func(context.Context, *flyt.SharedStore, flyt.Result, flyt.Result) (flyt.Action, error) {
		if id == 0 {
			return nil // "no function": a setting like any other, it takes the parameter back to its default
		}
		return func(ctx context.Context, s *flyt.SharedStore, a, b flyt.Result) (flyt.Action, error) {
			p.mark("post", id)
			p.sawPrep(a.Value())
			return flyt.DefaultAction, nil
		}
	}
	prepFnA := func(id int) func(context.Context, *flyt.SharedStore) (any, error) {
		return func(ctx context.Context, s *flyt.SharedStore) (any, error) {
			p.mark("prep", id)
			applyInPrep()
			return "prep", nil
		}
	}
	// an any-based prep function whose value happens to be a flyt.Result (it is a value like any other)
	prepFnAR := func(id int) func(context.Context, *flyt.SharedStore) (any, error) {
		return func(ctx context.Context, s *flyt.SharedStore) (any, error) {
			p.mark("prep", id)
			applyInPrep()
			return flyt.NewResult("prep"), nil
		}
	}
	execFnA := func(id int) func(context.Context, any) (any, error) {
		inner := execFn(id)
		return func(ctx context.Context, v any) (any, error) {
			r, err := inner(ctx, flyt.NewResult(v))
			return r.Value(), err
		}
	}
	postFnA := func(id int) func(context.Context, *flyt.SharedStore, any, any) (flyt.Action, error) {
		return func(ctx context.Context, s *flyt.SharedStore, a, b any) (flyt.Action, error) {
			p.mark("post", id)
			p.sawPrep(a)
			return flyt.DefaultAction, nil
		}
	}
	fbFn := func(id int) func(any, error) (any, error) {
		if id == 0 {
			return nil // "no function": a setting like any other, it takes the parameter back to its default
		}
		return func(a any, err error) (any, error) { p.mark("fb", id); return "fallback", nil }
	}
	bprepFn := func(id int) func(context.Context, *flyt.SharedStore) ([]flyt.Result, error) {
		return func(ctx context.Context, s *flyt.SharedStore) ([]flyt.Result, error) {
			p.mark("prep", id)
			applyInPrep()
			items := make([]flyt.Result, 6)
			for i := range items {
				items[i] = flyt.NewResult(i + 1)
			}
			if p.failExec {
				items = items[:1]
			}
			return items, nil
		}
	}
	bpostFn := func(id int) func(context.Context, *flyt.SharedStore, []flyt.Result, []flyt.Result) (flyt.Action, error) {
		return func(ctx context.Context, s *flyt.SharedStore, a, b []flyt.Result) (flyt.Action, error) {
			p.mark("post", id)
			return flyt.DefaultAction, nil
		}
	}
	baseOpt := func(s cfgStep) flyt.NodeOption {
		switch s.Param {
		case "retries":
			return flyt.WithMaxRetries(retriesVal(s.Val))
		case "wait":
			return flyt.WithWait(time.Duration(s.Val) * time.Millisecond)
		case "conc":
			return flyt.WithBatchConcurrency(concVal(kind, s.Val))
		default:
			return flyt.WithBatchErrorHandling(s.Val == 0)
		}
	}
	probe := Event{"ev": "probe", "retries": 0, "wait": 0, "conc": 0, "mode": 0, "prepfn": 0, "execfn": 0, "postfn": 0, "fbfn": 0,
		"attempts": 0, "hwm": 0, "stopped": false, "panicked": false, "prepkind": ""}
	func() {
		defer func() {
			if r := recover(); r != nil {
				probe["panicked"] = true
			}
		}()
		var node flyt.Node
		var base *flyt.BaseNode
		var opts []any
		for _, s := range steps {
			if s.Form != "opt" {
				continue
			}
			switch s.Param {
			case "prep":
				if s.Sty == "ar" {
					opts = append(opts, flyt.WithPrepFuncAny(prepFnAR(s.Val)))
				} else if s.Sty == "a" {
					opts = append(opts, flyt.WithPrepFuncAny(prepFnA(s.Val)))
				} else {
					opts = append(opts, flyt.WithPrepFunc(prepFn(s.Val)))
				}
			case "exec":
				if s.Sty == "a" {
					opts = append(opts, flyt.WithExecFuncAny(execFnA(s.Val)))
				} else {
					opts = append(opts, flyt.WithExecFunc(execFn(s.Val)))
				}
			case "post":
				if s.Sty == "a" {
					opts = append(opts, flyt.WithPostFuncAny(postFnA(s.Val)))
				} else {
					opts = append(opts, flyt.WithPostFunc(postFn(s.Val)))
				}
			case "fb":
				if s.Sty == "n" {
					opts = append(opts, flyt.WithExecFallbackFunc(namedFb(fbFn(s.Val)))) // a fallback kept in a named function type
				} else {
					opts = append(opts, flyt.WithExecFallbackFunc(fbFn(s.Val)))
				}
			default:
				if s.Sty == "f" {
					opts = append(opts, (func(*flyt.BaseNode))(baseOpt(s))) // the unnamed function type
				} else {
					opts = append(opts, baseOpt(s))
				}
			}
		}
		if kind == "node" {
			if second {
				_ = flyt.NewNode(opts...) // the first node made from this list
			}
			b := flyt.NewNode(opts...)
			base = b.BaseNode
			for _, s := range steps {
				switch {
				case s.Form == "late":
					baseOpt(s)(base)
				case s.Form == "bld":
					switch s.Param {
					case "retries":
						b = b.WithMaxRetries(retriesVal(s.Val))
					case "wait":
						b = b.WithWait(time.Duration(s.Val) * time.Millisecond)
					case "conc":
						b = b.WithBatchConcurrency(concVal(kind, s.Val))
					case "mode":
						b = b.WithBatchErrorHandling(s.Val == 0)
					case "prep":
						if s.Sty == "ar" {
							b = b.WithPrepFuncAny(prepFnAR(s.Val))
						} else if s.Sty == "a" {
							b = b.WithPrepFuncAny(prepFnA(s.Val))
						} else {
							b = b.WithPrepFunc(prepFn(s.Val))
						}
					case "exec":
						if s.Sty == "a" {
							b = b.WithExecFuncAny(execFnA(s.Val))
						} else {
							b = b.WithExecFunc(execFn(s.Val))
						}
					case "post":
						if s.Sty == "a" {
							b = b.WithPostFuncAny(postFnA(s.Val))
						} else {
							b = b.WithPostFunc(postFn(s.Val))
						}
					case "fb":
						if s.Sty == "n" {
							b = b.WithExecFallbackFunc(namedFb(fbFn(s.Val)))
						} else {
							b = b.WithExecFallbackFunc(fbFn(s.Val))
						}
					}
				}
			}
			node = b
			probe["retries"], probe["wait"] = retriesTok(b.GetMaxRetries()), int(b.GetWait()/time.Millisecond)
			probe["conc"] = concTok(kind, b.GetBatchConcurrency())
		} else {
			if second {
				_ = flyt.NewBatchNode(opts...)
			}
			b := flyt.NewBatchNode(opts...)
			base = b.BaseNode
			for _, s := range steps {
				switch {
				case s.Form == "late":
					baseOpt(s)(base)
				case s.Form == "bld":
					switch s.Param {
					case "retries":
						b = b.WithMaxRetries(retriesVal(s.Val))
					case "wait":
						b = b.WithWait(time.Duration(s.Val) * time.Millisecond)
					case "conc":
						b = b.WithBatchConcurrency(concVal(kind, s.Val))
					case "mode":
						b = b.WithBatchErrorHandling(s.Val == 0)
					case "prep":
						b = b.WithPrepFunc(bprepFn(s.Val))
					case "exec":
						if s.Sty == "a" {
							b = b.WithExecFuncAny(execFnA(s.Val))
						} else {
							b = b.WithExecFunc(execFn(s.Val))
						}
					case "post":
						b = b.WithPostFunc(bpostFn(s.Val))
					}
				}
			}
			node = b
			probe["retries"], probe["wait"] = retriesTok(b.GetMaxRetries()), int(b.GetWait()/time.Millisecond)
			probe["conc"] = concTok(kind, b.GetBatchConcurrency())
		}
		if base.GetBatchErrorHandling() == "stop" {
			probe["mode"] = 1
		}
		lateBase = base
		// probe run A: exec always fails -> attempts made, fallback
		p.failExec = true
		flyt.Run(context.Background(), node, flyt.NewSharedStore())
		probe["attempts"] = int(atomic.LoadInt32(&p.attempts))
		p.mu.Lock()
		probe["fbfn"] = p.called["fb"]
		p.mu.Unlock()
		// settings made between the two probe runs (form "afterrun"): the node has run once with the old ones
		for _, s := range steps {
			if s.Form == "afterrun" && s.Param == "conc" {
				flyt.WithBatchConcurrency(s.Val)(base)
			}
		}
		// probe run B: exec succeeds (batch: item 1 fails, the first c items meet at a barrier)
		p.failExec = false
		atomic.StoreInt32(&p.hwm, 0)
		atomic.StoreInt32(&p.executed, 0)
		if c := base.GetBatchConcurrency(); kind == "batch" && c > 1 {
			p.barN = int32(c)
		}
		flyt.Run(context.Background(), node, flyt.NewSharedStore())
		p.mu.Lock()
		probe["prepfn"], probe["execfn"], probe["postfn"] = p.called["prep"], p.called["exec"], p.called["post"]
		p.mu.Unlock()
		probe["hwm"] = int(atomic.LoadInt32(&p.hwm))
		p.mu.Lock()
		probe["prepkind"] = p.prepKind
		p.mu.Unlock()
		nExec := 0
		for m := atomic.LoadInt32(&p.executed); m != 0; m &= m - 1 {
			nExec++
		}
		probe["stopped"] = nExec < 6
	}()
	return append(evs, probe)
}

// ---------------------------------------------------------------------------

// the retry budget value 4 of the configuration table stands for a budget beyond 32 bits
const bigRetries = 1<<32 + 3

func retriesVal(v int) int {
	if v == 4 {
		return bigRetries
	}
	return v
}

// the concurrency value 3 of the configuration table stands for a limit above a few thousand (function nodes only: the
// setting is inert there, the getter shows it)
func concVal(kind string, v int) int {
	if kind == "node" && v == 3 {
		return 5000
	}
	return v
}
func concTok(kind string, x int) int {
	switch {
	case kind != "node":
		return x
	case x == 5000:
		return 3
	case x < 0 || x > 2:
		return 99
	}
	return x
}
func retriesTok(x int) int {
	switch {
	case x == bigRetries:
		return 4
	case x < 0 || x > 3:
		return 99
	}
	return x
}

// pool size semantics: a size <= 0 means one worker (C19), never none and never more
func poolSizeProbe(size int) Event {
	eff := size
	if eff <= 0 {
		eff = 1
	}
	tasks := eff + 1
	var ran, inflight, hwm, arrived int32
	barrier := make(chan struct{})
	var once sync.Once
	done := make(chan struct{})
	go func() {
		defer close(done)
		defer func() { recover() }()
		p := flyt.NewWorkerPool(size)
		for i := 0; i < tasks; i++ {
			p.Submit(func() {
				n := atomic.AddInt32(&inflight, 1)
				for {
					h := atomic.LoadInt32(&hwm)
					if n <= h || atomic.CompareAndSwapInt32(&hwm, h, n) {
						break
					}
				}
				// the first eff tasks meet at a barrier: all eff workers must exist
				if atomic.AddInt32(&arrived, 1) >= int32(eff) {
					once.Do(func() { close(barrier) })
				}
				select {
				case <-barrier:
				case <-time.After(500 * time.Millisecond):
				}
				time.Sleep(time.Millisecond)
				atomic.AddInt32(&inflight, -1)
				atomic.AddInt32(&ran, 1)
			})
		}
		p.Wait()
		p.Close()
	}()
	hung := false
	select {
	case <-done:
	case <-time.After(3 * time.Second):
		hung = true
	}
	return Event{"ev": "poolsize", "size": size, "tasks": tasks, "ran": int(atomic.LoadInt32(&ran)), "hwm": int(atomic.LoadInt32(&hwm)), "hung": hung}
}

func init() {
	families["access"] = func(o *Out, scnFile string, seed int64, count int, modes string, opts map[string]string) {
		id := 0
		fams := []string{"String", "Int", "Float64", "Bool", "Slice", "Map"}
		oneValue := func(class string, rep int, v any) []Event {
			var evs []Event
			for _, f := range fams {
				for _, variant := range []string{"plain", "or", "must"} {
					for _, carrier := range []string{"result", "store", "absent"} {
						if carrier != "result" && variant == "must" {
							continue
						}
						if class == "errresult" && carrier != "result" {
							continue
						}
						x := callAccessor(f, variant, carrier, v)
						evs = append(evs, Event{"ev": "access", "class": class, "rep": rep, "family": f, "variant": variant, "carrier": carrier,
							"panicked": x.panicked, "ok": x.ok, "isdefault": x.isdefault, "iszero": x.iszero, "eqref": x.eqref})
					}
				}
			}
			if class != "errresult" {
				evs = append(evs, toSliceFacts(class, rep, v))
			}
			return evs
		}
		classes := accessClasses
		if scnFile != "" { // the classes of the cells TLC enumerated
			seen := map[string]bool{}
			classes = nil
			for _, line := range readLines(scnFile) {
				c := asStr(line["class"])
				if !seen[c] {
					seen[c] = true
					classes = append(classes, c)
				}
			}
		}
		for _, class := range classes {
			for rep, v := range classReps(class) {
				id++
				o.WriteScenario(id, "access", "tlc-cells", map[string]any{"class": class, "rep": rep}, nil, oneValue(class, rep, v))
			}
		}
		r := rand.New(rand.NewSource(seed))
		for i := 0; i < count; i++ {
			class, v := randomValue(r)
			id++
			o.WriteScenario(id, "access", "gen", map[string]any{"class": class, "rep": 1000 + i}, nil, oneValue(class, 1000+i, v))
		}
		// sequences on ONE store and ONE key: the value is replaced through Set / Merge / Delete+Set / Clear+Set and every
		// getter is asked again after each replacement (a getter must always answer for the value stored NOW)
		nSeq := 40
		if count > 1000 {
			nSeq = 1500
		}
		for q := 0; q < nSeq; q++ {
			st := flyt.NewSharedStore()
			var evs []Event
			steps := 3 + r.Intn(5)
			for k := 0; k < steps; k++ {
				class := accessClasses[r.Intn(len(accessClasses))]
				if class == "errresult" {
					class = "intslice"
				}
				reps := classReps(class)
				rep := r.Intn(len(reps))
				v := reps[rep]
				switch r.Intn(4) {
				case 0:
					st.Set("k", v)
				case 1:
					st.Merge(map[string]any{"k": v, "other": k})
				case 2:
					st.Delete("k")
					st.Set("k", v)
				default:
					st.Clear()
					st.Merge(map[string]any{"k": v})
				}
				for _, f := range fams {
					for _, variant := range []string{"plain", "or"} {
						x := callAccessorOn(st, f, variant, "store", v)
						evs = append(evs, Event{"ev": "access", "class": class, "rep": rep, "family": f, "variant": variant, "carrier": "store",
							"panicked": x.panicked, "ok": x.ok, "isdefault": x.isdefault, "iszero": x.iszero, "eqref": x.eqref})
					}
				}
			}
			id++
			o.WriteScenario(id, "access", "gen:sequence", map[string]any{"class": "sequence", "rep": q}, nil, evs)
		}
	}
	families["bind"] = func(o *Out, scnFile string, seed int64, count int, modes string, opts map[string]string) {
		id := 0
		for vi, bv := range bindValues {
			var evs []Event
			for _, carrier := range []string{"result", "store"} {
				for _, dest := range []string{"niliface", "nonptr", "nilptr", "ptrsame"} {
					evs = append(evs, runBind(carrier, true, false, dest, bv, 0))
				}
				for di := range bindOtherDests {
					evs = append(evs, runBind(carrier, true, false, "ptrother", bv, di))
				}
			}
			for di := range bindOtherDests {
				evs = append(evs, runBindAgree(bv, di))
				for _, carrier := range []string{"store", "result"} {
					if ev, ok := runBindAlias(bv, di, carrier); ok {
						evs = append(evs, ev)
					}
				}
			}
			// missing key, nil values
			evs = append(evs, runBind("store", false, false, "ptrother", bv, vi))
			for _, dest := range []string{"niliface", "nonptr", "nilptr", "ptrother"} {
				evs = append(evs, runBind("result", true, true, dest, bv, vi))
				evs = append(evs, runBind("store", true, true, dest, bv, vi))
			}
			id++
			o.WriteScenario(id, "bind", "tlc-cells", map[string]any{"val": bv.name}, nil, evs)
		}
		// Bind against a key that another goroutine keeps setting and deleting
		for _, dest := range []string{"int", "any", "struct"} {
			id++
			o.WriteScenario(id, "bind", "gen:race", map[string]any{"val": "race-" + dest}, nil, []Event{runBindRace(dest)})
		}
		// random nested values
		r := rand.New(rand.NewSource(seed))
		for i := 0; i < count; i++ {
			depth := 1 + r.Intn(3)
			val := randJSONValue(r, depth)
			if val == nil {
				val = map[string]any{"id": float64(i)}
			}
			bv := bindValue{name: fmt.Sprintf("rand%d", i), mk: func() any { return cloneJSON(val) }}
			var evs []Event
			for di := range bindOtherDests {
				evs = append(evs, runBind([]string{"result", "store"}[r.Intn(2)], true, false, "ptrother", bv, di))
				evs = append(evs, runBindAgree(bv, di))
			}
			evs = append(evs, runBind("result", true, false, "ptrsame", bv, 0), runBind("store", true, false, "ptrsame", bv, 0))
			id++
			o.WriteScenario(id, "bind", "gen", map[string]any{"val": bv.name}, nil, evs)
		}
	}
	families["config"] = func(o *Out, scnFile string, seed int64, count int, modes string, opts map[string]string) {
		id := 0
		maxScn := 0
		if ms := opts["maxscn"]; ms != "" {
			fmt.Sscanf(ms, "%d", &maxScn)
		}
		run := func(kind string, steps []cfgStep, src string) {
			id++
			o.WriteScenario(id, "config", src, map[string]any{"kind": kind}, nil, runConfigScenario(kind, steps))
		}
		if scnFile != "" {
			lines := readLines(scnFile)
			step := 1
			if maxScn > 0 && len(lines) > maxScn {
				step = len(lines)/maxScn + 1
			}
			for li, line := range lines {
				if (li+int(seed))%step != 0 {
					continue
				}
				var steps []cfgStep
				for _, s := range asList(line["steps"]) {
					m := asMap(s)
					steps = append(steps, cfgStep{asStr(m["param"]), asStr(m["form"]), asInt(m["val"]), asStr(m["sty"])})
				}
				run(asStr(line["kind"]), steps, "tlc")
			}
		}
		for _, size := range []int{-4, -1, 0, 1, 2, 3, 5} {
			id++
			o.WriteScenario(id, "config", "poolsize", map[string]any{"kind": "pool"}, nil, []Event{poolSizeProbe(size)})
		}
		r := rand.New(rand.NewSource(seed*13 + 1))
		params := []string{"retries", "wait", "conc", "mode", "prep", "exec", "post", "fb"}
		for i := 0; i < count; i++ {
			kind := []string{"node", "batch"}[r.Intn(2)]
			n := r.Intn(7)
			var optSteps, later []cfgStep
			for j := 0; j < n; j++ {
				prm := params[r.Intn(len(params))]
				form := []string{"opt", "bld", "late"}[r.Intn(3)]
				base := prm == "retries" || prm == "wait" || prm == "conc" || prm == "mode"
				if form == "late" && !base {
					form = "bld"
				}
				if kind == "batch" && !base && form == "opt" {
					form = "bld"
				}
				if kind == "batch" && prm == "fb" {
					continue
				}
				var val int
				switch prm {
				case "retries":
					val = r.Intn(4)
					if kind == "node" && r.Intn(6) == 0 {
						val = 4 // a budget beyond 32 bits
					}
				case "wait", "conc":
					val = []int{0, 2}[r.Intn(2)]
					if prm == "conc" && kind == "node" && r.Intn(5) == 0 {
						val = 3 // a limit in the thousands
					}
				case "mode":
					val = r.Intn(2)
				default:
					val = 1 + r.Intn(2)
				}
				sty := "r"
				if !base && prm != "fb" && r.Intn(2) == 0 && (kind == "node" || prm == "exec") {
					sty = "a"
				}
				if base && form == "opt" && r.Intn(2) == 0 {
					sty = "f"
				}
				if prm == "fb" && r.Intn(2) == 0 {
					sty = "n"
				}
				if prm == "prep" && kind == "node" && r.Intn(3) == 0 {
					sty = "ar"
				}
				if !base && kind == "node" && (sty == "r" || sty == "n") && r.Intn(5) == 0 {
					val = 0 // the parameter is set to "no function"
				}
				s := cfgStep{prm, form, val, sty}
				if form == "opt" {
					optSteps = append(optSteps, s)
				} else {
					later = append(later, s)
				}
			}
			all := append(optSteps, later...)
			run(kind, all, "gen")
			if len(optSteps) > 0 {
				// the same, with the options kept in one slice from which two nodes are made (the second is probed)
				id++
				o.WriteScenario(id, "config", "gen:second", map[string]any{"kind": kind}, nil, runConfigScenarioOpt(kind, all, true))
			}
			if kind == "batch" && r.Intn(2) == 0 {
				// ... with another concurrency level set after the node has run once
				// (the node has functions and runs concurrently the first time, so that both runs show their level)
				withAfter := append(append([]cfgStep{}, all...), cfgStep{"prep", "bld", 1, "r"}, cfgStep{"exec", "bld", 1, "r"},
					cfgStep{"conc", "bld", []int{2, 3}[r.Intn(2)], "r"}, cfgStep{"conc", "afterrun", []int{0, 2, 3}[r.Intn(3)], "r"})
				run(kind, withAfter, "gen:afterrun")
			}
			if r.Intn(2) == 0 {
				// ... and with a setting that the node's own prep applies while the node runs
				prm := []string{"retries", "conc", "mode"}[r.Intn(3)]
				val := map[string][]int{"retries": {1, 2, 3}, "conc": {0, 2}, "mode": {0, 1}}[prm]
				withPrep := append(append([]cfgStep{}, all...), cfgStep{prm, "inprep", val[r.Intn(len(val))], "r"})
				run(kind, withPrep, "gen:inprep")
			}
		}
	}
}

func randJSONValue(r *rand.Rand, depth int) any {
	switch k := r.Intn(7); {
	case depth <= 0 || k < 3:
		switch r.Intn(4) {
		case 0:
			return float64(r.Intn(100))
		case 1:
			return fmt.Sprintf("v%d", r.Intn(100))
		case 2:
			return r.Intn(2) == 0
		default:
			return nil
		}
	case k < 5:
		m := map[string]any{}
		for _, key := range []string{"id", "name", "flag", "tags", "inner"}[:1+r.Intn(5)] {
			m[key] = randJSONValue(r, depth-1)
		}
		return m
	default:
		n := r.Intn(4)
		l := make([]any, n)
		for i := range l {
			l[i] = randJSONValue(r, depth-1)
		}
		return l
	}
}

func cloneJSON(v any) any {
	switch x := v.(type) {
	case map[string]any:
		m := make(map[string]any, len(x))
		for k, e := range x {
			m[k] = cloneJSON(e)
		}
		return m
	case []any:
		l := make([]any, len(x))
		for i, e := range x {
			l[i] = cloneJSON(e)
		}
		return l
	}
	return v
}
