package findings

// C18: a batch whose prep produced no items returned post's action unnormalised, so an
// empty action was reported as "" (batch.go:182-189 on the pinned tree) and a flow did
// not follow the connection on the default action.  Found by ./check C18.

import (
	"context"
	"testing"

	"github.com/mark3labs/flyt"
)

func emptyBatch() *flyt.BatchNodeBuilder {
	return flyt.NewBatchNode().
		WithPrepFunc(func(ctx context.Context, s *flyt.SharedStore) ([]flyt.Result, error) { return nil, nil }).
		WithPostFunc(func(ctx context.Context, s *flyt.SharedStore, a, b []flyt.Result) (flyt.Action, error) { return "", nil })
}

func TestC18EmptyBatchNeverYieldsEmptyAction(t *testing.T) {
	a, err := flyt.Run(context.Background(), emptyBatch(), flyt.NewSharedStore())
	if err != nil {
		t.Fatal(err)
	}
	if a != flyt.DefaultAction {
		t.Errorf("empty batch returned action %q, want %q", a, flyt.DefaultAction)
	}
}

func TestC18EmptyBatchDefaultConnectionIsFollowed(t *testing.T) {
	ran := false
	b := emptyBatch()
	next := flyt.NewNode(flyt.WithExecFuncAny(func(ctx context.Context, p any) (any, error) { ran = true; return nil, nil }))
	f := flyt.NewFlow(b).Connect(b, flyt.DefaultAction, next)
	if err := f.Run(context.Background(), flyt.NewSharedStore()); err != nil {
		t.Fatal(err)
	}
	if !ran {
		t.Errorf("successor connected on the default action did not run after an empty batch")
	}
}
