module veriffindings

go 1.23

require github.com/mark3labs/flyt v0.0.0

replace github.com/mark3labs/flyt => /repo
