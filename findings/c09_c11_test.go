package findings

// C09 / C11: a sequential batch in stop-on-error mode leaves the slots of the items it
// never processed as zero Results (IsError()==false, nil value): post sees never-run
// items as successes.  Same root cause when the context is cancelled: the first
// unprocessed slot gets an error, the following ones stay zero.
// (batch.go:231-255 on the pinned tree.)  Found by ./check C09 (clause noFakeSuccess)
// and ./check C11 (clause outcome).

import (
	"context"
	"errors"
	"testing"

	"github.com/mark3labs/flyt"
)

func seqStopBatch(fail func(int) bool, executed *[]int, slots *[]flyt.Result) *flyt.BatchNodeBuilder {
	return flyt.NewBatchNode().
		WithBatchErrorHandling(false).
		WithPrepFunc(func(ctx context.Context, s *flyt.SharedStore) ([]flyt.Result, error) {
			return []flyt.Result{flyt.R(1), flyt.R(2), flyt.R(3)}, nil
		}).
		WithExecFuncAny(func(ctx context.Context, v any) (any, error) {
			*executed = append(*executed, v.(int))
			if fail(v.(int)) {
				return nil, errors.New("item failed")
			}
			return v, nil
		}).
		WithPostFunc(func(ctx context.Context, s *flyt.SharedStore, items, res []flyt.Result) (flyt.Action, error) {
			*slots = append([]flyt.Result{}, res...)
			return flyt.DefaultAction, nil
		})
}

func TestC09SequentialStopNeverReportsUnprocessedItemsAsSuccess(t *testing.T) {
	var executed []int
	var slots []flyt.Result
	n := seqStopBatch(func(i int) bool { return i == 1 }, &executed, &slots)
	if _, err := flyt.Run(context.Background(), n, flyt.NewSharedStore()); err != nil {
		t.Fatal(err)
	}
	if len(executed) != 1 {
		t.Fatalf("executed %v, want only item 1", executed)
	}
	for i, r := range slots {
		if !r.IsError() {
			t.Errorf("slot %d (item never processed or failed) is presented as a success: value=%v", i, r.Value())
		}
	}
}

func TestC11SequentialStopCancelledMarksAllUnprocessedItems(t *testing.T) {
	var executed []int
	var slots []flyt.Result
	n := seqStopBatch(func(int) bool { return false }, &executed, &slots)
	ctx, cancel := context.WithCancel(context.Background())
	cancel()
	_, err := flyt.Run(ctx, n, flyt.NewSharedStore())
	if err != nil && errors.Is(err, context.Canceled) {
		return // reporting the context's error is the other allowed outcome
	}
	if len(executed) != 0 {
		t.Fatalf("executed %v after cancellation", executed)
	}
	for i, r := range slots {
		if !r.IsError() {
			t.Errorf("slot %d of an item that was never executed carries no error", i)
		}
	}
}
