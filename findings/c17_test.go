package findings

// C17: a function node whose Result-style exec returns an error Result (with a nil Go
// error) outside a batch: the post function must see that Result - its error state -
// not a second Result wrapped around it.
//
// On the pinned tree CustomNode.Post wrapped the exec value unconditionally
// (flyt.go:1151-1156), so post received Result{value: Result{err: e}} with
// IsError() == false.  Found by ./check C17 (clause execToPost).

import (
	"context"
	"errors"
	"testing"

	"github.com/mark3labs/flyt"
)

func TestC17ErrorResultReachesPostUnwrapped(t *testing.T) {
	boom := errors.New("boom")
	var sawErr bool
	var inner any
	node := flyt.NewNode(
		flyt.WithExecFunc(func(ctx context.Context, p flyt.Result) (flyt.Result, error) {
			return flyt.NewErrorResult(boom), nil
		}),
		flyt.WithPostFunc(func(ctx context.Context, s *flyt.SharedStore, p, x flyt.Result) (flyt.Action, error) {
			sawErr = x.IsError() && errors.Is(x.Error(), boom)
			inner = x.Value()
			return flyt.DefaultAction, nil
		}),
	)
	if _, err := flyt.Run(context.Background(), node, flyt.NewSharedStore()); err != nil {
		t.Fatal(err)
	}
	if _, double := inner.(flyt.Result); double {
		t.Errorf("post received a Result wrapped in a Result (value %#v)", inner)
	}
	if !sawErr {
		t.Errorf("post did not see the error state of the exec result")
	}
}
