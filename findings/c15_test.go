package findings

// C15: the slice accessors decided "is this a slice?" by comparing interface values
// (result.go:221-228, flyt.go:336-340 on the pinned tree): `result[0] == value` panics
// for values of uncomparable dynamic type (maps, funcs, structs or arrays containing
// slices, a slice type that contains itself), and NaN != NaN made a float64 NaN look
// like a one-element slice.  Found by ./check C15 (clauses neverPanics, failureReported).

import (
	"math"
	"testing"

	"github.com/mark3labs/flyt"
)

type selfSlice []any

func TestC15SliceAccessorsAreTotalAndExact(t *testing.T) {
	self := make(selfSlice, 1)
	self[0] = self
	nonSlices := map[string]any{
		"map":     map[string]any{"a": 1},
		"func":    func() {},
		"struct":  struct{ S []int }{[]int{1}},
		"array":   [1]any{[]int{1}},
		"NaN":     math.NaN(),
	}
	for name, v := range nonSlices {
		func() {
			defer func() {
				if p := recover(); p != nil {
					t.Errorf("%s: accessor panicked: %v", name, p)
				}
			}()
			if s, ok := flyt.NewResult(v).AsSlice(); ok {
				t.Errorf("%s: AsSlice reports a slice: %v", name, s)
			}
			st := flyt.NewSharedStore()
			st.Set("k", v)
			if s := st.GetSlice("k"); s != nil {
				t.Errorf("%s: GetSlice returned %v for a non-slice", name, s)
			}
		}()
	}
	func() {
		defer func() {
			if p := recover(); p != nil {
				t.Errorf("self-containing slice: accessor panicked: %v", p)
			}
		}()
		if s, ok := flyt.NewResult(self).AsSlice(); !ok || len(s) != 1 {
			t.Errorf("self-containing slice: AsSlice = %v, %v", s, ok)
		}
	}()
}
